"""C11 -- a deprecated name behaves exactly like its replacement.

Base tree with new options of every type (visible, conditionally hidden, promptless), one option whose NAME is also an old
name of the rename alphabet, and options whose names contain the text `CONFIG_` again after the prefix (plus the options a
"remove every CONFIG_" mangling of those names would hit).  Tree shapes:
  plain    no Kconfig expression mentions a deprecated name (the old name has no Symbol object at all);
  mention  every deprecated name of the table occurs in a `default y if <rel>`, a `depends on <rel>` and a
           `select XT if <rel>` condition, so it exists in Kconfig.syms as an undefined, node-less symbol;
  mention_default / mention_depends / mention_select (thorough, 1-line tables): one of the three positions only;
  mention_new   (tables with a replacement name that is NOT a defined option) leftover expressions mention that REPLACEMENT name
           -- `depends on !NEW`, `default y if NEW = 42` -- so it exists in Kconfig.syms as a node-less symbol of unknown type,
           the old name is mentioned nowhere;      mention_both = mention + mention_new.
An old name whose replacement is not defined has no type of its own: its lines / block entries are written with values of every
type (y, n, 42, 0x2a, "v w").
Rename tables = every 1- and 2-line selection of the alphabet, plus every 3-line ordering of the lines that map one and the
same old name; the alphabet has old names and new names with an embedded / doubled prefix (CONFIG_OLD_CONFIG_B,
CONFIG_CONFIG_OLD_B, CONFIG_E_CONFIG_B ...) and one old name with three different targets (CONFIG_B, CONFIG_BH, !CONFIG_B).
Rename FILES (layouts): the check chooses the names -- <scratch>/<table>/{aa,mm,zz}/sdkconfig.rename -- so that the
alphabetical order of the listed paths is part of the case and identical when the case is replayed:
  1 file (mm), the same file listed twice (mm-mm); a 2-line table as 2 files listed in path order (aa-zz), against path
  order (zz-aa), and with the first file listed again at the end (aa-zz-aa, zz-aa-zz: its mapping is in force again); a
  3-line table as 3 files in each of the 6 listings of aa, mm, zz.  The table in force = the lines in LISTING order.
ROUTES by which the listing reaches the library (plain tree; the table in force must be the one the LISTING gives, whichever
route delivers it):
  list      Kconfig.load_rename_files(listing)                                   (all of the above)
  env:*     load_rename_files_from_env(config, sdkconfig_rename=, list_separator=) -- what kconfgen and menuconfig call -- with the
            listing divided between the explicitly named file and COMPONENT_SDKCONFIG_RENAMES: `explicit` (1 file, variable not
            set), `space` / `semicolon` (every file in the variable, that separator), `explicit+space` / `explicit+semicolon`
            (first listed file explicit, the others in the variable);
  kconfgen:*  the kconfgen command line (--kconfig --config --sdkconfig-rename --list-separator --output config) run in-process
            as one invocation with the variable set; observation: the sdkconfig it writes (with its deprecated block);
  crossed with the 1-line sdkconfig files (thorough: <=2 lines for 1-line tables and the aa-zz / zz-aa layouts); quick: env over
  1-line tables (mm, mm-mm), 2-line tables (mm, aa-zz, zz-aa) and the 3-file listings, kconfgen with the explicit flag over 1-line
  tables and the aa-zz / zz-aa layouts; thorough: every layout (kconfgen: all but aa-zz-aa / zz-aa-zz) x every division.
sdkconfig files = every ordered sequence of <=2 (quick) / <=3 (thorough) lines over
{OLD=v, NEW=v, # OLD is not set, # NEW is not set} for the old names and the defined new names of every line of the table
(also of a line that a later line overrides).
Composed sdkconfig files (single-file tables): files in which ordinary lines and deprecated blocks are mixed --
  W+L      the file the library writes with write_deprecated=True (6 configurations) + an appended override line;
  B+L, L+B, B0+L, B+L+B, B+B+L   hand-made: block (one entry / empty) before, after, around and twice before a line;
  L+U      a block that is never closed (everything up to the end of the file is the block);
  B, U     nothing but a block with one entry (no line outside names the entry: the entry carries the full demand of (5));
  thorough (1-line tables; 2-line tables in the plain / mention_new / mention_both trees up to the hand-made shapes above):
           + W+L+L, L+B+L, L+U(2 entries), B(2 entries), and the two-block shapes with different entries;
lines and block entries range over the same line alphabet (same name inside and outside, contradicting or not).

Oracles
  (1) load(file) == load(translate(file)): option values, user values and the re-written sdkconfig, where `translate`
      rewrites a line whose name is not defined in the tree and is mapped (last mapping IN LISTING ORDER wins) to a defined
      option: OLD=v -> NEW=v (y/n swapped for `!` renames of bools), `# OLD is not set` -> `# NEW is not set` (NEW=y if inverted);
  (2) an old name whose replacement is defined never appears in missing_syms; any table / file must load without raising;
  (3) a file written with the deprecated block, loaded with the default flag, equals the same file with the block cut out,
      even when the block is edited to contradict the body; loaded with load_deprecated=True, eval_string on each alias
      gives the value that was written, no alias is listed in missing_syms, and (mention trees) the tree's own expressions
      over the alias -- X<i> `default y if <rel>`, XDEP `depends on <rel>...`, XT selected `if <rel>` -- take the value
      that <rel> has for the written entry (<rel> is: OLD for bools, OLD < 8, OLD < 0x20, OLD = "d"; n while OLD is undefined);
  (4) composed files, default flag: load(file) == load(file with every block cut out) (values, user values, re-written
      file, missing_syms) == load(that file with the remaining lines translated); i.e. ONLY the block is ignored;
  (5) composed files, load_deprecated=True: the defined options have the values / user values of the file with the blocks
      cut out (lines outside a block are loaded, also when they use a name that a block lists), and the block entries
      evaluate to what was written (entries written twice with different values, or named by an outside line, carry no
      demand) -- ALSO an entry whose replacement is not a defined option (typed by the written value: y/n bool, 0x.. hex,
      digits int, otherwise string), whether or not a leftover expression mentions that replacement; when every entry is
      determinate the mention tree's own expressions take the value <rel> has for the entries (as in (3)).
      A block entry that names a DEFINED option is outside the statement: such files are skipped in (5).
  (6) routes: oracles (1) and (2) with the rename files delivered by the route; the reference is the table that the listing
      gives (a route that drops, reorders or re-splits the files makes an old name differ from its replacement).
  (7) LIVE instance (single-file tables): histories  [load A; READ everything; load B]  on ONE Kconfig instance, where
        A  = the empty file, every 1-line file (default flag), every block with one entry loaded with load_deprecated=True,
        READ = str_value of every defined option + eval_string / str_value of every old and undefined replacement name of the table
               (thorough, B = a block alone: also `write` = write_config(write_deprecated=True), `eval` = the names alone),
        B  = a block with one entry, a line alone, a tool-written file (2 configurations) after every A; a block before / after
             a line after the empty A (thorough: after every 1-line A; + never-closed block, block-line-block, the other 4
             tool-written configurations after the empty A)    x load_deprecated in {True, False} x replace in {True, False};
        quick: 1-line tables in the trees plain / mention / mention_both; thorough: + the single-position mention trees and
        mention_new, + every 2-line table in the mention tree with A in {empty, 1 line}, B = a block alone, load_deprecated=True.
        Not generated (findings/C11-notset-entry-stale-cache): B requested with an `is not set` entry for a number / string alias
        that the tree mentions.
      (7a) the READ is not observable: values, user values, re-written sdkconfig, missing_syms, and the value / eval_string of
           every old and undefined replacement name equal those of a twin instance given the same two loads and no READ between;
      (7b) after B with load_deprecated=True the clauses of (5) hold on the live instance: determinate block entries evaluate to
           what B wrote, and (A loaded without a requested block) the mention tree's own expressions take the value <rel> has for
           B's entries.  No demand for an entry whose name A already loaded from a requested block with a replacement that is
           not defined (its type was fixed by A's value).
"""

from __future__ import annotations

import itertools
import os
import re
import shutil
import sys
from typing import Any, Dict, Iterator, List, Optional, Tuple

from .. import common, impl, kgen
from ..kgen import Cfg, L, Not, Or, Program, Rel, S

ID = "C11"
LEVEL = "exploration"
RULE = (
    "tree shapes {plain, mention} (thorough: + mention_default, mention_depends, mention_select over the 1-line tables) x all 1- and "
    "2-line rename tables over a 19-line alphabet incl. names with the prefix text embedded / doubled, + the 3-line orderings of the "
    "lines mapping one old name, x rename-file layouts with check-chosen directory names aa/mm/zz (1 file; the same file listed twice; "
    "2 files listed in and against alphabetical path order; first file listed again at the end; 3 files in all 6 listings) x all ordered "
    "sdkconfig files of <=2 (quick) / <=3 (thorough) lines over the old/new names of the table in the forms =v, `is not set` (layouts "
    "that list a file twice, and in thorough the mention tree against path order: one line less; quick crosses the multi-file layouts "
    "with the plain tree only); plus, per tree x single-file table: x 6 configurations the deprecated-block clauses (default flag and "
    "load_deprecated=True), and the composed files (tool-written file + appended line; hand-made files with a block before / after / "
    "around / twice before a line, an empty block, a never-closed block; both load flags) -- quick: 1-line tables all shapes with <=2 "
    "free lines, 2-line tables the appended-line shape for 2 configurations; thorough: 1-line tables <=3 free lines, 2-line tables "
    "<=2 free lines (plain tree). A mention tree is generated per table (it mentions the table's old names that are not defined "
    "options; a table without such a name has no mention tree). distinct_nontrivial = distinct (tree, table, layout, file) tuples in "
    "which at least one line uses a deprecated name + distinct (tree, table, configuration) triples whose written file has a "
    "deprecated block + distinct (tree, table, composed file, flag) tuples that contain a block. Added dimensions: (a) ROUTES -- the "
    "same listings delivered by load_rename_files_from_env() (explicit file / COMPONENT_SDKCONFIG_RENAMES with space and semicolon "
    "separators / explicit file + variable) and by the kconfgen command line (--sdkconfig-rename, --list-separator, the variable), "
    "plain tree x 1-line sdkconfig files (thorough: <=2 lines where the listing has <=2 distinct files in a row); (b) trees "
    "mention_new / mention_both in which the REPLACEMENT name of a mapping to an undefined option is mentioned by leftover "
    "expressions, for every table with such a mapping, x files / composed files as for the mention tree, the alias written with "
    "values of every type; composed shapes B and U (a block and nothing else). (c) LIVE instances -- per tree x single-file table "
    "every history [load A; read all values and names; load B(load_deprecated True/False, replace True/False)] with A in {empty, "
    "1 line, requested 1-entry block} and B in {block, block+line, line+block, tool-written file, line} compared with a twin instance "
    "given the same loads without the read, + the requested-block clauses on the live instance; quick: 1-line tables, trees plain / "
    "mention / mention_both (block+line shapes after the empty A only); thorough: + 2-line tables in the mention tree (B = block alone, "
    "requested), the single-position mention trees, never-closed and double blocks, reads through write_config / eval_string alone. "
    "Histories whose requested block has an `is not set` entry for a number / string alias mentioned by the tree are skipped "
    "(counter live_skipped_notset_nonbool_entry; findings/C11-notset-entry-stale-cache)."
)
ASSUMPTIONS = [
    "a mapping to an option that is not defined carries no obligation for ORDINARY lines except not raising and not disturbing other "
    "options; a REQUESTED block entry for such an old name still evaluates to the value written, typed by that value",
    "routes: paths contain neither blanks nor semicolons; COMPONENT_SDKCONFIG_RENAMES has no empty elements (no leading / trailing / "
    "doubled separator); the menuconfig entry point (SDKCONFIG_RENAME, SDKCONFIG_RENAMES_LIST_SEPARATOR) calls the same function "
    "as the env route and is not started; kconfserver's own splitting of the variable is not explored here",
    "`is not set` written for a number / string alias inside a requested block writes no value: the tree expressions over it carry "
    "no demand",
    "hand-written files carry no `# default:` markers in front of deprecated names",
    "the reference load of a translated file is computed once per (tree, table, translated text): loading is deterministic (the runner "
    "re-executes every reported case twice in fresh processes)",
    "a deprecated name mentioned by a Kconfig expression and NOT loaded from a requested deprecated block is an ordinary undefined "
    "symbol (evaluates to n / its own name); only the equivalence of the two spellings is demanded there",
    "rename files are listed by absolute paths that differ only in the directory name chosen by the case (aa < mm < zz); relative "
    "paths, symlinks and case-insensitive file systems are not explored",
    "live instances: reading values (str_value, eval_string, write_config) is not an operation of the configuration -- an instance "
    "that was read between two loads must end in the same observable state as one that was not",
    "a never-closed deprecated block extends to the end of the file; a block entry that names a defined option is outside the "
    "statement when the block is requested (skipped there, counted in `skipped`)",
]

PREFIX = "CONFIG_"

ALPHABET = [
    "CONFIG_OLD_B CONFIG_B",
    "CONFIG_OLD_NB !CONFIG_B",
    "CONFIG_OLD_B2 CONFIG_B",
    "CONFIG_OLD_B CONFIG_BH",
    "CONFIG_OLD_NBH !CONFIG_BH",
    "CONFIG_OLD_I CONFIG_I",
    "CONFIG_OLD_NI !CONFIG_I",
    "CONFIG_OLD_S CONFIG_S",
    "CONFIG_OLD_H CONFIG_H",
    "CONFIG_OLD_U CONFIG_UNDEFINED",
    "CONFIG_old_lower CONFIG_B",
    "CONFIG_DEFINED_OLD CONFIG_B",
    "CONFIG_OLD_BP CONFIG_BP",
    "CONFIG_OLD_B !CONFIG_B",
    # the prefix text again inside a name: old side (its every-CONFIG_-removed form is the old name OLD_B), doubled prefix,
    # new side (its mangled form E_B is another defined option), both sides + inversion, string (mangled form E_S undefined)
    "CONFIG_OLD_CONFIG_B CONFIG_B",
    "CONFIG_CONFIG_OLD_B CONFIG_BH",
    "CONFIG_OLD_EB CONFIG_E_CONFIG_B",
    "CONFIG_OLD_CONFIG_NEB !CONFIG_E_CONFIG_B",
    "CONFIG_OLD_ES CONFIG_E_CONFIG_S",
]

BASE = [
    Cfg("B", "bool", prompt="b"),
    Cfg("BH", "bool", prompt="bh", prompt_cond=S("B"), defaults=[(L("y"), None)]),
    Cfg("BP", "bool", defaults=[(L("y"), S("B"))]),
    Cfg("I", "int", prompt="i", ranges=[(L("0"), L("50"), None)], defaults=[(L("5"), None)]),
    Cfg("H", "hex", prompt="h", defaults=[(L("0x1f"), None)]),
    Cfg("S", "string", prompt="s", defaults=[(L('"d"'), None)]),
    Cfg("DEFINED_OLD", "bool", prompt="an option whose name is also listed as deprecated"),
    Cfg("E_CONFIG_B", "bool", prompt="name with the prefix text inside"),
    Cfg("E_B", "bool", prompt="what E_CONFIG_B becomes when every CONFIG_ is removed"),
    Cfg("E_CONFIG_S", "string", prompt="string, prefix text inside", defaults=[(L('"d"'), None)]),
]
TYPES = {"B": "bool", "BH": "bool", "BP": "bool", "I": "int", "H": "hex", "S": "string", "DEFINED_OLD": "bool",
         "E_CONFIG_B": "bool", "E_B": "bool", "E_CONFIG_S": "string"}
VALS = {"bool": ["y", "n"], "int": ["7", "99"], "hex": ["0x2a"], "string": ['"v w"', '"q\\"x"'],
        # an old name whose replacement is NOT defined has no type of its own: it is written with values of every type
        "any": ["y", "n", "42", "0x2a", '"v w"']}

TREE_KINDS_QUICK = ["plain", "mention"]
TREE_KINDS_SINGLE = ["mention_default", "mention_depends", "mention_select"]  # thorough, 1-line tables
TREE_KINDS_NEW = ["mention_new", "mention_both"]  # tables with a replacement name that is not defined


def _split_line(line: str) -> Tuple[str, str, bool]:
    old, new = line.split()
    return old[len(PREFIX):], new.lstrip("!")[len(PREFIX):], new.startswith("!")


def _old_types() -> Dict[str, str]:
    out: Dict[str, str] = {}
    for line in ALPHABET:
        old, new, _inv = _split_line(line)
        t = TYPES.get(new, "any")
        assert out.setdefault(old, t) == t, old  # an old name has one type over the whole alphabet
    return out


OLD_TYPE = _old_types()


def rel_of(old: str) -> tuple:
    """the condition through which a mention tree refers to an old name; n while the name is undefined"""
    t = OLD_TYPE[old]
    if t in ("bool", "any"):
        return S(old)
    if t == "int":
        return Rel("<", S(old), L("8"))
    if t == "hex":
        return Rel("<", S(old), L("0x20"))
    return Rel("=", S(old), L('"d"'))


def rel_holds(old: str, written: Optional[str]) -> bool:
    """value of rel_of(old) when the alias was written as `written` (None: `is not set`)"""
    t = OLD_TYPE[old]
    if written is None:
        return False
    if t in ("bool", "any"):
        return written == "y"  # (a number / string entry is not y)
    if t == "int":
        return int(written) < 8
    if t == "hex":
        return int(written, 16) < 0x20
    return written == '"d"'


def mentioned_olds(tab: Tuple[int, ...]) -> List[str]:
    out: List[str] = []
    for i in tab:
        old = _split_line(ALPHABET[i])[0]
        if old not in TYPES and old not in out:
            out.append(old)
    return out


def undefined_news(tab: Tuple[int, ...]) -> List[str]:
    """replacement names of the table that are not defined options"""
    out: List[str] = []
    for i in tab:
        new = _split_line(ALPHABET[i])[1]
        if new not in TYPES and new not in out:
            out.append(new)
    return out


def mentions_olds(kind: str) -> bool:
    return kind not in ("plain", "mention_new")


def tree_files(kind: str, tab: Tuple[int, ...]) -> Optional[Dict[str, str]]:
    """None: this tree shape does not exist for the table"""
    ch = list(BASE)
    if mentions_olds(kind):
        olds = mentioned_olds(tab)
        if not olds:
            return None
        rels = [rel_of(o) for o in olds]
        if kind in ("mention", "mention_both", "mention_default"):
            for j, rel in enumerate(rels):
                ch.append(Cfg(f"X{j}", "bool", defaults=[(L("y"), rel)]))
        if kind in ("mention", "mention_both", "mention_depends"):
            dep = rels[0]
            for rel in rels[1:]:
                dep = Or(dep, rel)
            ch.append(Cfg("XDEP", "bool", prompt="legacy option", depends=[dep], defaults=[(L("y"), None)]))
        if kind in ("mention", "mention_both", "mention_select"):
            ch.append(Cfg("XT", "bool"))
            ch.append(Cfg("XSEL", "bool", prompt="legacy selector", defaults=[(L("y"), None)], selects=[("XT", rel) for rel in rels]))
    if kind in ("mention_new", "mention_both"):
        # leftover expressions over a REPLACEMENT name that is not defined (any more): the name exists in Kconfig.syms as a
        # node-less symbol of unknown type
        news = undefined_news(tab)
        if not news:
            return None
        for j, new in enumerate(news):
            ch.append(Cfg(f"XN{j}", "bool", prompt="leftover user of a removed option", depends=[Not(S(new))], defaults=[(L("y"), None)]))
            ch.append(Cfg(f"XNV{j}", "bool", defaults=[(L("y"), Rel("=", S(new), L("42")))]))
    return kgen.render(Program(children=ch))


# ---- rename-file layouts ---------------------------------------------------------------------------------------------
# A layout is the LISTING handed to load_rename_files(), written as directory names joined by `-`; every rename file is
# <per-table scratch dir>/<directory>/sdkconfig.rename, so the alphabetical order relation of the listed paths is fixed by
# the layout (and is the same in the exploring and in the replaying process).  One distinct directory: that file holds
# the whole table; otherwise the i-th distinct directory (in order of first listing) holds line i of the table.
#   mm            one file                       mm-mm          the same file listed twice
#   aa-zz         listed in path order           zz-aa          listed against path order
#   aa-zz-aa / zz-aa-zz   first file listed again after the second (its mapping is in force again)
#   3-line tables: the six listings of aa, mm, zz (line i in the i-th listed directory)
LAYOUTS_1 = ["mm", "mm-mm"]
LAYOUTS_2 = ["mm", "aa-zz", "zz-aa"]
LAYOUTS_2_AGAIN = ["mm-mm", "aa-zz-aa", "zz-aa-zz"]
LAYOUTS_3 = ["-".join(p) for p in itertools.permutations(["aa", "mm", "zz"])]


def layout_files(tab: Tuple[int, ...], layout: str) -> Tuple[Dict[str, Tuple[int, ...]], List[str]]:
    """({directory: lines of the alphabet in that file}, listing)"""
    listing = layout.split("-")
    dirs = list(dict.fromkeys(listing))
    if len(dirs) == 1:
        return {dirs[0]: tuple(tab)}, listing
    assert len(dirs) == len(tab), (tab, layout)
    return {d: (tab[i],) for i, d in enumerate(dirs)}, listing


def effective(tab: Tuple[int, ...], layout: str) -> Tuple[int, ...]:
    """the lines in the order in which the listing presents them (a file listed twice presents its lines twice)"""
    content, listing = layout_files(tab, layout)
    return tuple(i for d in listing for i in content[d])


def layout_class(layout: str) -> str:
    listing = layout.split("-")
    if len(set(listing)) == 1:
        return "one_file" if len(listing) == 1 else "one_file_listed_twice"
    c = "listed_in_path_order" if listing == sorted(listing) else "listed_against_path_order"
    return c + ("+file_listed_twice" if len(set(listing)) < len(listing) else "")


def old_groups() -> List[Tuple[int, ...]]:
    """lines of the alphabet that map the same old name (>= 3 of them): the 3-file tables"""
    by_old: Dict[str, List[int]] = {}
    for i, line in enumerate(ALPHABET):
        by_old.setdefault(line.split()[0], []).append(i)
    return [tuple(v) for v in by_old.values() if len(v) >= 3]


def tables(tier: str) -> Iterator[Tuple[Tuple[int, ...], str]]:
    n = len(ALPHABET)
    for i in range(n):
        for lay in LAYOUTS_1:
            yield (i,), lay
    for a, b in itertools.permutations(range(n), 2):
        for lay in LAYOUTS_2 + LAYOUTS_2_AGAIN:
            yield (a, b), lay
    for g in old_groups():
        for t in itertools.permutations(g, 3):
            for lay in LAYOUTS_3:
                yield t, lay


# ---- routes ----------------------------------------------------------------------------------------------------------
# A route is the way by which the LISTING of rename files reaches the library, `<api>:<split>`:
#   list                          Kconfig.load_rename_files(listing)
#   env:<split>                   esp_kconfiglib.deprecated.load_rename_files_from_env(config, sdkconfig_rename=, list_separator=)
#                                 (what kconfgen and menuconfig call)
#   kconfgen:<split>              the kconfgen command line (--sdkconfig-rename, --list-separator, --config, --output config), run
#                                 in-process like one invocation; the observation is the written sdkconfig
# <split> says how the listing is divided between the explicitly named file and COMPONENT_SDKCONFIG_RENAMES:
#   explicit                      (1-file listings) the file is the explicit one, the variable is not set
#   space / semicolon             every file in the variable, joined by that separator, no explicit file
#   explicit+space / explicit+semicolon   (>=2 listed) the first listed file is the explicit one, the others are in the variable
# In every case the library is handed the same ordered list, so the table in force is effective(tab, layout).
def splits_of(layout: str) -> List[str]:
    n = len(layout.split("-"))
    return ["explicit", "space", "semicolon"] if n == 1 else ["space", "semicolon", "explicit+space", "explicit+semicolon"]


def routes_of(tier: str, kind: str, tab: Tuple[int, ...], lay: str) -> List[Tuple[str, int]]:
    """[(route, longest sdkconfig file)] besides the `list` route; routes are crossed with the plain tree"""
    if kind != "plain":
        return []
    again = lay in LAYOUTS_2_AGAIN and lay != "mm-mm"
    out: List[Tuple[str, int]] = []
    if tier == "quick":
        if again or (lay == "mm-mm" and len(tab) > 1):
            return []
        out += [("env:" + sp, 1) for sp in splits_of(lay)]
        if len(tab) == 1 or lay in ("aa-zz", "zz-aa"):
            # the command line: the explicit flag alone / with the variable in both separators
            out += [("kconfgen:" + sp, 1) for sp in splits_of(lay) if sp.startswith("explicit")]
        return out
    n = 2 if (len(tab) == 1 or lay in ("aa-zz", "zz-aa")) else 1
    out += [("env:" + sp, n) for sp in splits_of(lay)]
    if not again:
        out += [("kconfgen:" + sp, 1) for sp in splits_of(lay)]
    return out


def route_args(route: str, paths: List[str]) -> Tuple[Optional[str], Optional[str], str]:
    """(explicit file, value of COMPONENT_SDKCONFIG_RENAMES or None, list_separator)"""
    split = route.split(":", 1)[1]
    sepname = "semicolon" if split.endswith("semicolon") else "space"
    sep = ";" if sepname == "semicolon" else " "
    assert not any(" " in p or ";" in p for p in paths), paths
    if split == "explicit":
        assert len(paths) == 1
        return paths[0], None, sepname
    if split.startswith("explicit+"):
        assert len(paths) >= 2
        return paths[0], sep.join(paths[1:]), sepname
    return None, sep.join(paths), sepname


def file_length(tier: str, kind: str, tab: Tuple[int, ...], lay: str) -> int:
    """longest sdkconfig file the (tree, table, layout) is crossed with; 0: not explored"""
    full = 2 if tier == "quick" else 3
    if kind in TREE_KINDS_NEW:
        if lay != "mm" or not undefined_news(tab):
            return 0
        return full if len(tab) == 1 else full - 1
    if kind not in ("plain", "mention"):
        return full if tier != "quick" and len(tab) == 1 and lay == "mm" else 0
    if lay == "mm":
        return full
    # how a table is spread over rename files only concerns the parsing of the table: quick crosses the multi-file
    # layouts with the plain tree only
    if kind == "mention" and tier == "quick":
        return 0
    if lay in LAYOUTS_2_AGAIN or lay == "mm-mm":
        return full - 1
    if kind == "mention" and lay == "zz-aa":
        return full - 1
    return full


def mapping_of(tab: Tuple[int, ...]) -> Dict[str, Tuple[str, bool]]:
    m: Dict[str, Tuple[str, bool]] = {}
    for i in tab:
        old, new = ALPHABET[i].split()
        m[old[len("CONFIG_"):]] = (new.lstrip("!")[len("CONFIG_"):], new.startswith("!"))
    return m


def line_alphabet(tab: Tuple[int, ...]) -> List[str]:
    """=v / `is not set` lines for the old and the (defined) new name of EVERY line of the table, also of a line that a later
    line overrides (the target that is no longer in force must stay untouched by the old name)"""
    names: List[Tuple[str, str]] = []  # (name, type)
    for i in tab:
        old, new, _inv = _split_line(ALPHABET[i])
        t = TYPES.get(new, "bool")
        names.append((old, OLD_TYPE[old]))
        if new in TYPES:
            names.append((new, t))
    out: List[str] = []
    seen = set()
    for name, t in names:
        if name in seen:
            continue
        seen.add(name)
        for v in VALS[t]:
            out.append(f"CONFIG_{name}={v}")
        out.append(f"# CONFIG_{name} is not set")
    return out


def items(tier: str, seed: int):
    work: Dict[Tuple[str, int, str], list] = {}
    for tab, lay in tables(tier):
        for kind in TREE_KINDS_QUICK + TREE_KINDS_SINGLE + TREE_KINDS_NEW:
            n = file_length(tier, kind, tab, lay)
            if n:
                work.setdefault((kind, n, "list"), []).append((tab, lay))
            for route, rn in routes_of(tier, kind, tab, lay):
                work.setdefault((kind, rn, route), []).append((tab, lay))
    out = []
    for (kind, n, route), ts in work.items():
        per = 6 if route == "list" else 24 if route.startswith("env:") else 12
        out += [{"tree": kind, "tables": ts[i:i + per], "maxlen": n, "tier": tier, "route": route} for i in range(0, len(ts), per)]
    out += live_items(tier)
    return out


def parse_line(line: str) -> Tuple[str, Optional[str]]:
    """(name, value) of an assignment line, (name, None) of an `is not set` line"""
    ms = re.match(r"CONFIG_([^=]+)=(.*)", line)
    if ms:
        return ms.group(1), ms.group(2)
    mu = re.match(r"# CONFIG_([^ ]+) is not set", line)
    return mu.group(1), None


def translate(lines: List[str], m: Dict[str, Tuple[str, bool]]) -> List[str]:
    out = []
    for line in lines:
        name, val = parse_line(line)
        if name in TYPES or name not in m or m[name][0] not in TYPES:
            out.append(line)
            continue
        new, inv = m[name]
        t = TYPES[new]
        if val is not None:
            if inv and t == "bool":
                val = "n" if val.startswith("y") else "y"
            out.append(f"CONFIG_{new}={val}")
        else:
            if inv:
                out.append(f"CONFIG_{new}=y" if t == "bool" else f"# CONFIG_{new} is not set")
            else:
                out.append(f"# CONFIG_{new} is not set")
    return out


_rename_dirs: Dict[Tuple[Tuple[int, ...], str], List[str]] = {}


def rename_paths(tab: Tuple[int, ...], layout: str) -> List[str]:
    """writes the rename files of the table (once per process and table) and returns the listing as paths; all paths share
    the prefix up to the layout's directory name, so their order relation is the one the layout names"""
    key = (tuple(tab), layout)
    paths = _rename_dirs.get(key)
    if paths is not None:
        return paths
    if len(_rename_dirs) > 64:
        for ps in _rename_dirs.values():
            shutil.rmtree(os.path.dirname(os.path.dirname(ps[0])), ignore_errors=True)
        _rename_dirs.clear()
    content, listing = layout_files(key[0], layout)
    root = os.path.join(impl.wdir(), f"r{common.h64(repr(key)):016x}")
    for d, idxs in content.items():
        os.makedirs(os.path.join(root, d), exist_ok=True)
        with open(os.path.join(root, d, "sdkconfig.rename"), "w") as f:
            f.write("".join(ALPHABET[i] + "\n" for i in idxs))
    paths = [os.path.join(root, d, "sdkconfig.rename") for d in listing]
    assert (sorted(paths) == paths) == (sorted(listing) == listing)
    _rename_dirs[key] = paths
    return paths


def make_inst(files, tab, layout: str, route: str = "list") -> "impl.Inst":
    inst = impl.Inst(files)
    paths = list(rename_paths(tab, layout))
    if route == "list":
        inst.k.load_rename_files(paths)
        return inst
    assert route.startswith("env:"), route
    from esp_kconfiglib.deprecated import load_rename_files_from_env

    explicit, var, sepname = route_args(route, paths)
    saved = os.environ.get("COMPONENT_SDKCONFIG_RENAMES")
    try:
        if var is None:
            os.environ.pop("COMPONENT_SDKCONFIG_RENAMES", None)
        else:
            os.environ["COMPONENT_SDKCONFIG_RENAMES"] = var
        load_rename_files_from_env(inst.k, sdkconfig_rename=explicit, list_separator=sepname)
    finally:
        if saved is None:
            os.environ.pop("COMPONENT_SDKCONFIG_RENAMES", None)
        else:
            os.environ["COMPONENT_SDKCONFIG_RENAMES"] = saved
    return inst


def kconfgen_config(files, tab, layout: str, route: str, text: str) -> str:
    """the sdkconfig that `kconfgen --kconfig K --config <file with `text`> [--sdkconfig-rename F] --list-separator S --output
    config OUT` writes while COMPONENT_SDKCONFIG_RENAMES is set as the route says.  One invocation = one process: no report state
    carried over, environment and exception hooks restored afterwards."""
    import threading

    import esp_kconfiglib.report as rep
    import kconfgen.core as kg

    explicit, var, sepname = route_args(route, list(rename_paths(tab, layout)))
    kpath = impl.put_program(files)
    sdk = impl.put_text(text, "kg.in")
    out = impl.tmpfile("kg.out")
    args = ["--kconfig", kpath, "--config", sdk, "--list-separator", sepname, "--output", "config", out]
    if explicit is not None:
        args += ["--sdkconfig-rename", explicit]
    if rep.KconfigReport._instance is not None:
        rep.KconfigReport._instance.reset()
    saved_env = dict(os.environ)
    hooks = (sys.excepthook, getattr(threading, "excepthook", None))
    cwd = os.getcwd()
    try:
        os.chdir(os.path.dirname(kpath))
        if var is None:
            os.environ.pop("COMPONENT_SDKCONFIG_RENAMES", None)
        else:
            os.environ["COMPONENT_SDKCONFIG_RENAMES"] = var
        try:
            kg.main.main(args=args, standalone_mode=False)
        except SystemExit as e:  # log.die(): the tool refuses the input
            raise RuntimeError(f"kconfgen exited with {e.code}") from e
        with open(out) as f:
            return f.read()
    finally:
        os.chdir(cwd)
        for k in list(os.environ):
            if k not in saved_env:
                del os.environ[k]
        for k, v in saved_env.items():
            if os.environ.get(k) != v:
                os.environ[k] = v
        sys.excepthook = hooks[0]
        if hooks[1] is not None:
            threading.excepthook = hooks[1]
        for q in (sdk, out):
            try:
                os.unlink(q)
            except OSError:
                pass


def observe(files, tab, layout, text, route: str = "list", **kw):
    if route.startswith("kconfgen:"):
        assert not kw
        return None, {"config": kconfgen_config(files, tab, layout, route, text), "missing": []}
    inst = make_inst(files, tab, layout, route)
    inst.load_text(text, **kw)
    k = inst.k
    return inst, {
        "values": inst.values(),
        "user": {s.name: s._user_value for s in k.unique_defined_syms},
        "config": inst.config_text(),
        "missing": list(k.missing_syms),
    }


def site_of(e) -> str:
    import traceback

    tb = traceback.extract_tb(e.__traceback__)
    return next((f"{os.path.basename(fr.filename)}:{fr.name}" for fr in reversed(tb) if "/mck/" not in fr.filename), "?")


def line_class(line: str, m) -> str:
    name, val = parse_line(line)
    if name in TYPES and name in m:
        role = "defined_old"
    elif name in TYPES:
        role = "new"
    else:
        new, inv = m[name]
        role = ("old_inv" if inv else "old") + ("" if new in TYPES else "_undefrepl") + ":" + TYPES.get(new, "?")
        if PREFIX in name or PREFIX in new:
            role += "+prefix_inside_" + "_".join(w for w, n in (("old", name), ("new", new)) if PREFIX in n)
    return role + ("=" + ("set" if val is not None else "notset"))


def check_file(files, kind, tab, layout, lines: List[str], r: common.Result, cache: Optional[dict] = None, route: str = "list") -> None:
    m = mapping_of(effective(tab, layout))
    text = "".join(l + "\n" for l in lines)
    ttext = "".join(l + "\n" for l in translate(lines, m))
    case = {"files": files, "tree": kind, "table": list(tab), "layout": layout, "lines": lines}
    label = f"[tree={kind} table={[ALPHABET[i] for i in tab]}{' listed as ' + layout if layout != 'mm' else ''} file={lines}]"
    lay = {} if layout == "mm" else {"rename_files": layout_class(layout)}
    if route != "list":
        case["route"] = route
        label = label[:-1] + f" rename files delivered by {route}]"
        lay["route"] = route
    classes = sorted(line_class(l, m) for l in lines)
    r.evals += 1
    try:
        _, a = observe(files, tab, layout, text, route)
    except Exception as e:  # noqa: BLE001
        r.violation({"kind": "load_raises", "tree": kind, "exc": type(e).__name__, "site": site_of(e), "lines": classes, **lay}, f"{label} load raised {type(e).__name__}: {e}", case)
        return
    uses_old = text != ttext
    if not uses_old:
        b = a  # the file is its own translation: only the missing_syms / not-raising clauses apply
        if cache is not None:
            cache.setdefault(ttext, a)
    elif cache is not None and ttext in cache:
        b = cache[ttext]
    else:
        try:
            _, b = observe(files, tab, layout, ttext, route)
        except Exception as e:  # noqa: BLE001
            r.violation({"kind": "load_raises", "tree": kind, "exc": type(e).__name__, "site": site_of(e), "lines": ["translated"] + classes, **lay},
                        f"{label} loading the translation {translate(lines, m)} raised {type(e).__name__}: {e}", case)
            return
        if cache is not None:
            cache[ttext] = b
    if uses_old:
        r.outcome((kind, tab, layout, tuple(lines)) + ((route,) if route != "list" else ()))
    for key in ("values", "user", "config"):
        if key in a and a[key] != b[key]:
            if key == "config":
                d = f"{a[key]!r} vs {b[key]!r}"
            else:
                d = {n: (a[key][n], b[key][n]) for n in a[key] if a[key][n] != b[key][n]}
            r.violation({"kind": "old_name_differs_from_new_name", "tree": kind, "what": key, "lines": classes, **lay},
                        f"{label} loading the file vs. its translation {translate(lines, m)} differ in {key}: {d}", case)
            break
    bad = [n for n, _v in a["missing"] if n in m and m[n][0] in TYPES and n not in TYPES]
    if bad:
        r.violation({"kind": "deprecated_name_reported_unknown", "tree": kind, "lines": classes, **lay}, f"{label} missing_syms lists deprecated names {bad}", case)


def block_entries(lines: List[str]) -> Dict[str, Optional[str]]:
    """{alias: value written (None: `is not set`)} of the block lines that name something that is not a defined option"""
    written: Dict[str, Optional[str]] = {}
    for line in lines:
        if not re.match(r"CONFIG_[^=]+=|# CONFIG_[^ ]+ is not set", line):
            continue
        name, val = parse_line(line)
        if name not in TYPES:
            written[name] = val
    return written


def value_type(val: Optional[str]) -> str:
    """type of an entry whose replacement is not a defined option: nothing but the written value tells it"""
    if val is None or val in ("y", "n"):
        return "bool"
    if val.startswith(("0x", "0X")):
        return "hex"
    if val.lstrip("-").isdigit():
        return "int"
    return "string"


def alias_clauses(k2, written, m, olds, kind, label, case, r: common.Result, extra: dict, earlier: Tuple[str, ...] = ()) -> None:
    """load_deprecated=True: every block entry evaluates to what was written and is not reported unknown"""
    for name, val in written.items():
        # is the alias also a node-less symbol of the tree because an expression of the tree mentions it?
        how = "mentioned_in_kconfig" if name in olds else "not_in_kconfig"
        new = m.get(name, (None, False))[0]
        if new in TYPES:
            t = TYPES[new]
            repl = {}
        else:
            # replacement not defined (or no mapping): the entry still evaluates to what was written; is the replacement name
            # a node-less symbol of the tree because a leftover expression mentions it?
            t = value_type(val)
            repl = {"replacement": "undefined+mentioned_in_kconfig" if kind in TREE_KINDS_NEW and new is not None else "undefined"}
        if t != "bool":
            # non-bool aliases: compare by relation
            if val is not None:
                ev = k2.eval_string(f"{name} = {val}")
                if ev != 2:
                    esc = {"written": "with_escapes"} if "\\" in val else {}  # (a string entry is written escaped, as the option's own line)
                    r.violation({"kind": "alias_evaluates_differently", "tree": kind, "alias": how, "type": t, **repl, **esc, **extra}, f"{label} load_deprecated: `{name} = {val}` evaluates to {ev}", case)
            continue
        want = 2 if val == "y" else 0
        ev = k2.eval_string(name)
        if ev != want:
            r.violation({"kind": "alias_evaluates_differently", "tree": kind, "alias": how, "type": "bool", **repl, "written": "y" if want else "n", **extra}, f"{label} load_deprecated: alias {name} written as {'y' if want else 'n'} evaluates to {ev}", case)
    # (`earlier`: names that an ordinary line of an earlier load on the same instance assigned -- listed since then)
    lost = [n for n, _v in k2.missing_syms if n in written and n not in earlier]
    if lost:
        hows = sorted({"mentioned_in_kconfig" if n in olds else "not_in_kconfig" for n in lost})
        r.violation({"kind": "requested_block_entry_reported_unknown", "tree": kind, "alias": "+".join(hows), **extra}, f"{label} load_deprecated: missing_syms lists the block entries {lost}", case)


def tree_expression_clause(vals_after, written, olds, kind, label, case, r: common.Result, extra: dict) -> None:
    """mention trees, load_deprecated=True: X<i> `default y if <rel>`, XDEP `depends on <rel>...`, XT selected `if <rel>` take the
    value that <rel> has for the written entries (n for a mentioned name without an entry)"""
    if not olds:
        return
    if any(o in written and written[o] is None and OLD_TYPE[o] not in ("bool", "any") for o in olds):
        return  # `is not set` written for a number / string alias: no value was written, <rel> carries no demand
    holds = [rel_holds(o, written.get(o)) if o in written else False for o in olds]
    want_x = {f"X{j}": h for j, h in enumerate(holds)}
    want_x["XDEP"] = any(holds)
    want_x["XT"] = any(holds)
    diff = {n: (vals_after[n], "y" if w else "n") for n, w in sorted(want_x.items()) if n in vals_after and vals_after[n] != ("y" if w else "n")}
    if diff:
        pos = sorted({"default_if" if n.startswith("X") and n[1:].isdigit() else {"XDEP": "depends_on", "XT": "select_if"}[n] for n in diff})
        r.violation({"kind": "tree_expression_over_alias_differs", "tree": kind, "alias": "mentioned_in_kconfig", "position": pos, **extra},
                    f"{label} load_deprecated: block entries {written} but the options whose conditions mention them are (got, want) {diff}", case)


def check_block(files, kind, tab, layout, assign: Dict[str, str], r: common.Result) -> None:
    m = mapping_of(effective(tab, layout))
    case = {"files": files, "tree": kind, "table": list(tab), "layout": layout, "block_assign": assign}
    label = f"[tree={kind} table={[ALPHABET[i] for i in tab]} cfg={assign} deprecated block]"
    olds = mentioned_olds(tab) if mentions_olds(kind) else []
    r.evals += 1
    try:
        inst = make_inst(files, tab, layout)
        for n, v in assign.items():
            inst.k.syms[n].set_value(v)
        full = inst.config_text(write_deprecated=True)
        plain = inst.config_text(write_deprecated=False)
    except Exception as e:  # noqa: BLE001
        r.violation({"kind": "write_raises", "tree": kind, "exc": type(e).__name__, "site": site_of(e)}, f"{label} writing raised {type(e).__name__}: {e}", case)
        return
    if "# Deprecated options for backward compatibility" not in full:
        if full != plain:
            r.violation({"kind": "block_missing_but_text_differs", "tree": kind}, f"{label} no block but text differs", case)
        return
    r.outcome((kind, tab, "block", tuple(sorted(assign.items()))))
    cut = re.sub(r"\n# Deprecated options for backward compatibility\n.*?# End of deprecated options\n", "", full, flags=re.S)
    if cut != plain:
        r.violation({"kind": "block_is_not_a_suffix_block", "tree": kind}, f"{label} cutting the block out of the file does not give the file written without it", case)
    # contradicting block: flip every bool alias inside the block, change numbers / strings
    def flip(mo):
        body = mo.group(1)
        out = []
        for line in body.splitlines():
            ms = re.match(r"CONFIG_([^=]+)=(.*)", line)
            mu = re.match(r"# CONFIG_([^ ]+) is not set", line)
            if mu:
                out.append(f"CONFIG_{mu.group(1)}=y")
            elif ms and ms.group(2) == "y":
                out.append(f"# CONFIG_{ms.group(1)} is not set")
            elif ms and ms.group(2).startswith('"'):
                out.append(f'CONFIG_{ms.group(1)}="contradiction"')
            elif ms:
                out.append(f"CONFIG_{ms.group(1)}=11")
            else:
                out.append(line)
        return "\n# Deprecated options for backward compatibility\n" + "\n".join(out) + "\n# End of deprecated options\n"

    contra = re.sub(r"\n# Deprecated options for backward compatibility\n(.*?)# End of deprecated options\n", flip, full, flags=re.S)
    try:
        _, ref = observe(files, tab, layout, plain)
        for tag, txt in (("as_written", full), ("contradicting", contra)):
            _, got = observe(files, tab, layout, txt)
            for key in ("values", "user", "config", "missing"):
                if got[key] != ref[key]:
                    r.violation({"kind": "block_not_ignored", "tree": kind, "block": tag, "what": key}, f"{label} ({tag} block) default load differs from the block-less file in {key}", case)
                    break
        # explicit request: aliases evaluate to what was written
        inst2 = make_inst(files, tab, layout)
        inst2.load_text(full, load_deprecated=True)
        k2 = inst2.k
        blk = re.search(r"# Deprecated options for backward compatibility\n(.*?)# End of deprecated options", full, re.S).group(1)
        written = block_entries(blk.splitlines())
        alias_clauses(k2, written, m, olds, kind, label, case, r, {})
        vals_after = inst2.values()
        # the tree's own expressions over the aliases (mention trees)
        tree_expression_clause(vals_after, written, olds, kind, label, case, r, {})
        # (an old name that is ALSO a defined option is assigned by its block entry when the block is requested; the
        # statement only says such entries evaluate to what was written, so that table is exempt from this sanity clause)
        after = {n: v for n, v in vals_after.items() if n in TYPES}
        before = {n: v for n, v in ref["values"].items() if n in TYPES}
        if after != before and not any(old in TYPES for old in m):
            r.violation({"kind": "load_deprecated_changes_values", "tree": kind}, f"{label} load_deprecated=True changes option values: {after} vs {before}", case)
    except Exception as e:  # noqa: BLE001
        r.violation({"kind": "block_load_raises", "tree": kind, "exc": type(e).__name__, "site": site_of(e)}, f"{label} raised {type(e).__name__}: {e}", case)


BLOCK_CFGS = [{}, {"B": "y"}, {"B": "n"}, {"B": "y", "BH": "n", "I": "7", "S": "v w", "H": "0x2a", "E_CONFIG_B": "y", "E_CONFIG_S": "v w"},
              {"B": "y", "DEFINED_OLD": "y", "I": "50"}, {"S": 'q"x', "E_CONFIG_S": "back\\slash"}]


BEGIN = "# Deprecated options for backward compatibility"
END = "# End of deprecated options"


def cut_blocks(text: str) -> str:
    """the text without its deprecated blocks (begin marker .. end marker, or .. end of file when never closed)"""
    out, inside = [], False
    for line in text.splitlines(keepends=True):
        if line.strip() == BEGIN:
            inside = True
        elif line.strip() == END and inside:
            inside = False
        elif not inside:
            out.append(line)
    return "".join(out)


# A composed sdkconfig file is a sequence of tokens
#   ["L", line]       an ordinary line
#   ["B", [lines]]    a deprecated block with these entries           ["U", [lines]]  the same, never closed
#   ["W", assign]     the file the library writes (write_deprecated=True) for the configuration `assign`
def shape_of(tokens) -> str:
    return "+".join(t[0] + ("0" if t[0] in "BU" and not t[1] else "") for t in tokens)


def written_text(files, tab, layout, assign: Dict[str, str], memo: Optional[dict] = None) -> str:
    key = ("W", tuple(sorted(assign.items())))
    if memo is not None and key in memo:
        return memo[key]
    inst = make_inst(files, tab, layout)
    for n, v in assign.items():
        inst.k.syms[n].set_value(v)
    t = inst.config_text(write_deprecated=True)
    if memo is not None:
        memo[key] = t
    return t


def render_tokens(files, tab, layout, tokens, memo: Optional[dict] = None) -> str:
    out = []
    for t in tokens:
        if t[0] == "L":
            out.append(t[1] + "\n")
        elif t[0] == "B":
            out.append(BEGIN + "\n" + "".join(l + "\n" for l in t[1]) + END + "\n")
        elif t[0] == "U":
            out.append(BEGIN + "\n" + "".join(l + "\n" for l in t[1]))
        else:
            out.append(written_text(files, tab, layout, t[1], memo))
    return "".join(out)


def check_composed(files, kind, tab, layout, tokens, r: common.Result, memo: Optional[dict] = None) -> None:
    """default flag: a file with deprecated blocks anywhere == the same file with the blocks cut out == that file with the
    lines outside the blocks translated to the new names"""
    m = mapping_of(effective(tab, layout))
    shape = shape_of(tokens)
    case = {"files": files, "tree": kind, "table": list(tab), "layout": layout, "composed": tokens}
    label = f"[tree={kind} table={[ALPHABET[i] for i in tab]} composed file {tokens}]"
    memo = memo if memo is not None else {}
    r.evals += 1
    try:
        text = render_tokens(files, tab, layout, tokens, memo)
    except Exception as e:  # noqa: BLE001
        r.violation({"kind": "write_raises", "tree": kind, "exc": type(e).__name__, "site": site_of(e)}, f"{label} writing raised {type(e).__name__}: {e}", case)
        return
    if BEGIN not in text:
        r.skipped += 1  # the written file has no block (no alias of a defined option): nothing composed
        return
    ttokens = [["L", translate([t[1]], m)[0]] if t[0] == "L" else t for t in tokens]
    refs = [("block_cut_out", cut_blocks(text), ("values", "user", "config", "missing"))]
    if ttokens != tokens:
        refs.append(("block_cut_out_and_translated", cut_blocks(render_tokens(files, tab, layout, ttokens, memo)), ("values", "user", "config")))
    r.outcome((kind, tab, "composed", repr(tokens)))
    try:
        _, got = observe(files, tab, layout, text)
        for tag, rtext, keys in refs:
            ref = memo.get(("R", rtext))
            if ref is None:
                _, ref = observe(files, tab, layout, rtext)
                memo[("R", rtext)] = ref
            for key in keys:
                if got[key] != ref[key]:
                    if key in ("values", "user"):
                        d = {n: (got[key][n], ref[key][n]) for n in got[key] if got[key][n] != ref[key][n]}
                    else:
                        d = f"{got[key]!r} vs {ref[key]!r}"
                    r.violation({"kind": "file_with_block_differs_from_file_without", "tree": kind, "shape": shape, "reference": tag, "what": key},
                                f"{label} default load differs from the file with the block(s) cut out"
                                f"{' and the other lines translated' if tag != 'block_cut_out' else ''} in {key} (got, want): {d}", case)
                    break
    except Exception as e:  # noqa: BLE001
        r.violation({"kind": "block_load_raises", "tree": kind, "shape": shape, "exc": type(e).__name__, "site": site_of(e)}, f"{label} raised {type(e).__name__}: {e}", case)
        return
    bad = [n for n, _v in got["missing"] if n in m and m[n][0] in TYPES and n not in TYPES]
    if bad:
        r.violation({"kind": "deprecated_name_reported_unknown", "tree": kind, "shape": shape}, f"{label} missing_syms lists deprecated names {bad}", case)


def block_lines(text: str) -> List[str]:
    out, inside = [], False
    for line in text.splitlines():
        if line.strip() == BEGIN:
            inside = True
        elif line.strip() == END and inside:
            inside = False
        elif inside:
            out.append(line)
    return out


def check_composed_requested(files, kind, tab, layout, tokens, r: common.Result, memo: Optional[dict] = None) -> None:
    """load_deprecated=True on a composed file: the lines outside the blocks are loaded as in the file without the blocks, the
    block entries evaluate to what was written.  Out of the statement (skipped): a block entry that names a defined option."""
    m = mapping_of(effective(tab, layout))
    shape = shape_of(tokens)
    case = {"files": files, "tree": kind, "table": list(tab), "layout": layout, "composed": tokens, "requested": True}
    label = f"[tree={kind} table={[ALPHABET[i] for i in tab]} composed file {tokens} load_deprecated=True]"
    memo = memo if memo is not None else {}
    olds = mentioned_olds(tab) if mentions_olds(kind) else []
    r.evals += 1
    try:
        text = render_tokens(files, tab, layout, tokens, memo)
    except Exception as e:  # noqa: BLE001
        r.violation({"kind": "write_raises", "tree": kind, "exc": type(e).__name__, "site": site_of(e)}, f"{label} writing raised {type(e).__name__}: {e}", case)
        return
    entries = [parse_line(l) for l in block_lines(text) if re.match(r"CONFIG_[^=]+=|# CONFIG_[^ ]+ is not set", l)]
    if BEGIN not in text or any(n in TYPES for n, _v in entries):
        r.skipped += 1
        return
    vals: Dict[str, set] = {}
    for n, v in entries:
        vals.setdefault(n, set()).add(v)
    outside = {parse_line(t[1])[0] for t in tokens if t[0] == "L"}
    again = sorted(n for n in vals if n in outside)
    written = {n: next(iter(v)) for n, v in vals.items() if len(v) == 1 and n not in outside}
    r.outcome((kind, tab, "composed_requested", repr(tokens)))
    try:
        rtext = cut_blocks(text)
        ref = memo.get(("R", rtext))
        if ref is None:
            _, ref = observe(files, tab, layout, rtext)
            memo[("R", rtext)] = ref
        inst2 = make_inst(files, tab, layout)
        inst2.load_text(text, load_deprecated=True)
        got = {"values": inst2.values(), "user": {s.name: s._user_value for s in inst2.k.unique_defined_syms}}
        for key in ("values", "user"):
            d = {n: (got[key][n], ref[key][n]) for n in TYPES if got[key][n] != ref[key][n]}
            if d:
                r.violation({"kind": "lines_outside_requested_block_differ", "tree": kind, "shape": shape, "what": key,
                             "outside_line_names_a_block_entry": bool(again)},
                            f"{label} options differ from the file with the block(s) cut out in {key} (got, want): {d}", case)
                break
        alias_clauses(inst2.k, written, m, olds, kind, label, case, r, {"shape": shape})
        if all(n in written for n in vals):
            # every entry is determinate (written once / with one value, not named by an outside line)
            tree_expression_clause(got["values"], written, olds, kind, label, case, r, {"shape": shape})
    except Exception as e:  # noqa: BLE001
        r.violation({"kind": "block_load_raises", "tree": kind, "shape": shape, "requested": True, "exc": type(e).__name__, "site": site_of(e)}, f"{label} raised {type(e).__name__}: {e}", case)


def composed_files(la: List[str], level: int) -> Iterator[list]:
    """level 1: overrides appended to a tool-written file; 2: + hand-made files with <=2 free lines; 3: + 3 free lines"""
    L = lambda x: ["L", x]  # noqa: E731
    B = lambda *x: ["B", list(x)]  # noqa: E731
    U = lambda *x: ["U", list(x)]  # noqa: E731
    if level < 1:
        return
    cfgs = BLOCK_CFGS if level >= 2 else [BLOCK_CFGS[0], BLOCK_CFGS[3]]
    for cfg in cfgs:
        for t in la:
            yield [["W", cfg], L(t)]
    if level < 2:
        return
    for t in la:
        yield [B(), L(t)]
    for e in la:
        yield [B(e)]                    # nothing but a block (no line outside names the entry)
        yield [U(e)]
    for e in la:
        for t in la:
            yield [B(e), L(t)]          # block first, a line follows (same / other name, contradicting or not)
            yield [L(t), B(e)]          # block at the end
            yield [L(t), U(e)]          # block never closed: the rest of the file belongs to it
            yield [B(e), L(t), B(e)]    # two blocks
            yield [B(e), B(e), L(t)]
    if level < 3:
        return
    for cfg in cfgs:
        for t in la:
            for u in la:
                if u != t:
                    yield [["W", cfg], L(t), L(u)]
    for e in la:
        for u in la:
            if parse_line(u)[0] != parse_line(e)[0]:
                yield [B(e, u)]         # a block with entries for two names
    for e in la:
        for t in la:
            for u in la:
                yield [L(t), B(e), L(u)]
                yield [L(t), U(e, u)]
                if u != e:
                    yield [B(e), L(t), B(u)]
                    yield [B(e), B(u), L(t)]


def composed_level(tier: str, kind: str, tab, layout: str) -> int:
    if layout != "mm":
        return 0
    if tier == "quick":
        return 2 if len(tab) == 1 else 1
    if len(tab) == 1:
        return 3
    return 2 if kind == "plain" or kind in TREE_KINDS_NEW else 1


# ---- live instances ----------------------------------------------------------------------------------------------------
# history on ONE instance: load A (replace=True) ; READ ; load B (replace r, load_deprecated f) ; observe
# twin:                    load A (replace=True) ;        load B (replace r, load_deprecated f) ; observe
READ_MODES_QUICK = ["values"]
READ_MODES_THOROUGH = ["values", "write", "eval"]


def alias_names(tab: Tuple[int, ...]) -> List[str]:
    """every name of the table that is not a defined option: old names and undefined replacement names"""
    out: List[str] = []
    for i in tab:
        old, new, _inv = _split_line(ALPHABET[i])
        for n in (old, new):
            if n not in TYPES and n not in out:
                out.append(n)
    return out


def live_level(tier: str, kind: str, tab: Tuple[int, ...]) -> int:
    """0: not explored; 1: (2-line tables, mention tree) B = a block alone; 2: + line alone, tool-written file, block before /
    after a line; 3: + never-closed block, two blocks, every tool-written configuration, reads through write_config / names"""
    if kind == "plain":
        ok = True
    elif kind in TREE_KINDS_NEW:
        ok = bool(undefined_news(tab)) and (kind == "mention_both" or tier != "quick")
    elif kind == "mention":
        ok = True
    else:
        ok = tier != "quick" and len(tab) == 1
    if not ok:
        return 0
    if len(tab) == 1:
        return 2 if tier == "quick" else 3
    return 1 if tier != "quick" and kind == "mention" else 0


def live_firsts(la: List[str], requested: bool = True) -> Iterator[Tuple[list, bool]]:
    """(tokens of A, load_deprecated of A)"""
    yield [], False
    for t in la:
        yield [["L", t]], False
    if requested:
        for e in la:
            yield [["B", [e]]], True


def live_seconds(la: List[str], part: str) -> Iterator[list]:
    L = lambda x: ["L", x]  # noqa: E731
    B = lambda *x: ["B", list(x)]  # noqa: E731
    if part == "block":
        for e in la:
            yield [B(e)]
    elif part == "simple":
        for t in la:
            yield [L(t)]
        for cfg in (BLOCK_CFGS[0], BLOCK_CFGS[3]):
            yield [["W", cfg]]
    elif part == "mixed":
        for e in la:
            for t in la:
                yield [B(e), L(t)]
                yield [L(t), B(e)]
    elif part == "more":
        for cfg in BLOCK_CFGS[1:3] + BLOCK_CFGS[4:]:
            yield [["W", cfg]]
        for e in la:
            yield [["U", [e]]]
            for t in la:
                yield [L(t), ["U", [e]]]
                yield [B(e), L(t), B(e)]


ALL4 = [(True, True), (True, False), (False, True), (False, False)]  # (load_deprecated, replace) of the second load


def live_histories(tier: str, kind: str, tab: Tuple[int, ...], la: List[str]) -> Iterator[tuple]:
    """(A, B, load_deprecated, replace, read)"""
    level = live_level(tier, kind, tab)
    if level == 1:
        # 2-line tables (thorough): A without a requested block, B = a block alone
        for first in live_firsts(la, requested=False):
            for second in live_seconds(la, "block"):
                for flag, replace in ALL4[:2]:
                    yield first, second, flag, replace, "values"
        return
    for first in live_firsts(la):
        for part in ("block", "simple"):
            for second in live_seconds(la, part):
                for flag, replace in ALL4:
                    for read in (READ_MODES_THOROUGH if level >= 3 and part == "block" else READ_MODES_QUICK):
                        yield first, second, flag, replace, read
    # a block before / after a line: after the empty file (quick) / the empty file and every 1-line file (thorough);
    # never-closed block, two blocks, the other tool-written configurations (thorough): after the empty file
    for part in (("mixed",) if level < 3 else ("mixed", "more")):
        for first in ([([], False)] if level < 3 or part == "more" else list(live_firsts(la, requested=False))):
            for second in live_seconds(la, part):
                for flag, replace in ALL4:
                    yield first, second, flag, replace, "values"


def live_items(tier: str) -> list:
    n = len(ALPHABET)
    tabs: List[Tuple[int, ...]] = [(i,) for i in range(n)]
    if tier != "quick":
        tabs += list(itertools.permutations(range(n), 2))
    work: Dict[str, list] = {}
    for tab in tabs:
        for kind in TREE_KINDS_QUICK + TREE_KINDS_SINGLE + TREE_KINDS_NEW:
            if live_level(tier, kind, tab) and (kind == "plain" or tree_files(kind, tab) is not None):
                work.setdefault(kind, []).append((tab, "mm"))
    out = []
    for kind, ts in work.items():
        one = [t for t in ts if len(t[0]) == 1]
        two = [t for t in ts if len(t[0]) > 1]
        out += [{"tree": kind, "tables": [t], "tier": tier, "live": True} for t in one]
        out += [{"tree": kind, "tables": two[i:i + 4], "tier": tier, "live": True} for i in range(0, len(two), 4)]
    return out


def live_read(inst, names: List[str], mode: str) -> None:
    k = inst.k
    if mode == "write":
        inst.config_text(write_deprecated=True)
        return
    if mode == "values":
        inst.values()
    for n in names:
        k.eval_string(n)
        s = k.syms.get(n)
        if s is not None:
            s.str_value


def live_observe(inst, names: List[str]) -> dict:
    k = inst.k
    alias = {}
    for n in names:
        s = k.syms.get(n)
        alias[n] = (s.str_value if s is not None else None, k.eval_string(n))
    return {
        "alias": alias,
        "values": inst.values(),
        "user": {s.name: s._user_value for s in k.unique_defined_syms},
        "config": inst.config_text(),
        "missing": list(k.missing_syms),
    }


def check_live(files, kind, tab, layout, first, second, flag: bool, replace: bool, read: str, r: common.Result,
               memo: Optional[dict] = None) -> None:
    m = mapping_of(effective(tab, layout))
    a_tokens, a_flag = first
    memo = memo if memo is not None else {}
    names = alias_names(tab)
    olds = mentioned_olds(tab) if mentions_olds(kind) else []
    case = {"files": files, "tree": kind, "table": list(tab), "layout": layout,
            "live": {"first": [a_tokens, a_flag], "second": second, "load_deprecated": flag, "replace": replace, "read": read}}
    label = (f"[tree={kind} table={[ALPHABET[i] for i in tab]} one instance: load {a_tokens}{' load_deprecated=True' if a_flag else ''}; "
             f"read ({read}); load {second} load_deprecated={flag} replace={replace}]")
    a_shape = "empty" if not a_tokens else shape_of(a_tokens) + ("(requested)" if a_flag else "")
    extra = {"shape": shape_of(second), "live": f"first={a_shape};read={read};replace={replace}"}
    r.evals += 1
    try:
        a_text = render_tokens(files, tab, layout, a_tokens, memo)
        b_text = render_tokens(files, tab, layout, second, memo)
    except Exception as e:  # noqa: BLE001
        r.violation({"kind": "write_raises", "tree": kind, "exc": type(e).__name__, "site": site_of(e)}, f"{label} writing raised {type(e).__name__}: {e}", case)
        return
    uses = BEGIN in b_text or BEGIN in a_text or any(parse_line(t[1])[0] not in TYPES for t in list(a_tokens) + list(second) if t[0] == "L")
    if not uses:
        r.skipped += 1  # no deprecated name anywhere in the history
        return
    if flag and olds and any(v is None and n in olds and OLD_TYPE[n] not in ("bool", "any")
                             for n, v in (parse_line(l) for l in block_lines(b_text) if re.match(r"CONFIG_[^=]+=|# CONFIG_[^ ]+ is not set", l))):
        # findings/C11-notset-entry-stale-cache: a requested `is not set` entry for a number / string alias that the tree mentions
        # changes the symbol's type and menu node but writes no value, and nothing invalidates the values cached before the load
        r.skipped += 1
        r.count("live_skipped_notset_nonbool_entry")
        return
    r.outcome((kind, tab, "live", repr(case["live"])))
    try:
        live = make_inst(files, tab, layout)
        live.load_text(a_text, load_deprecated=a_flag)
        live_read(live, names, read)
        live.load_text(b_text, replace=replace, load_deprecated=flag)
        got = live_observe(live, names)
        twin = make_inst(files, tab, layout)
        twin.load_text(a_text, load_deprecated=a_flag)
        twin.load_text(b_text, replace=replace, load_deprecated=flag)
        ref = live_observe(twin, names)
    except Exception as e:  # noqa: BLE001
        r.violation({"kind": "block_load_raises", "tree": kind, "exc": type(e).__name__, "site": site_of(e), "requested": flag, **extra}, f"{label} raised {type(e).__name__}: {e}", case)
        return
    for key in ("alias", "values", "user", "config", "missing"):
        if got[key] != ref[key]:
            if key in ("alias", "values", "user"):
                d = {n: (got[key][n], ref[key][n]) for n in got[key] if got[key][n] != ref[key][n]}
            else:
                d = f"{got[key]!r} vs {ref[key]!r}"
            r.violation({"kind": "read_before_load_changes_result", "tree": kind, "what": key, "requested": flag, **extra},
                        f"{label} differs in {key} from a twin instance given the same loads without the read (got, twin): {d}", case)
            break
    if not flag or BEGIN not in b_text:
        return
    # (7b) the requested-block clauses on the live instance
    entries = [parse_line(l) for l in block_lines(b_text) if re.match(r"CONFIG_[^=]+=|# CONFIG_[^ ]+ is not set", l)]
    if any(n in TYPES for n, _v in entries):
        r.skipped += 1  # a block entry that names a defined option is outside the statement
        return
    vals: Dict[str, set] = {}
    for n, v in entries:
        vals.setdefault(n, set()).add(v)
    outside = {parse_line(t[1])[0] for t in second if t[0] == "L"}
    written = {n: next(iter(v)) for n, v in vals.items() if len(v) == 1 and n not in outside}
    a_entries = block_entries(block_lines(a_text)) if a_flag else {}
    # an entry that A already loaded from a requested block and whose replacement is not defined got its type from A's value
    demanded = {n: v for n, v in written.items() if not (n in a_entries and m.get(n, (None, False))[0] not in TYPES)}
    earlier = () if replace else tuple(parse_line(t[1])[0] for t in a_tokens if t[0] == "L")
    alias_clauses(live.k, demanded, m, olds, kind, label, case, r, extra, earlier)
    if not a_entries and all(n in written for n in vals):
        tree_expression_clause(got["values"], written, olds, kind, label, case, r, extra)


def run_live_item(item) -> common.Result:
    r = common.Result()
    kind = item["tree"]
    tier = item.get("tier", "quick")
    for tab, layout in item["tables"]:
        tab = tuple(tab)
        files = tree_files(kind, tab)
        if files is None:
            continue
        r.programs += 1
        la = line_alphabet(tab)
        memo: dict = {}
        n = 0
        for first, second, flag, replace, read in live_histories(tier, kind, tab, la):
            check_live(files, kind, tab, layout, first, second, flag, replace, read, r, memo)
            n += 1
        r.count("live_histories", n)
        if r.sample is None:
            r.sample = {"tree": kind, "kconfig": files["Kconfig"], "rename_file": [ALPHABET[i] for i in tab],
                        "live_histories_per_table": n, "example_history": ["load " + repr(la[:1]), "read all", "load block " + repr(la[:1]) + " load_deprecated=True"]}
    return r


def run_item(item) -> common.Result:
    if item.get("live"):
        return run_live_item(item)
    r = common.Result()
    kind = item["tree"]
    route = item.get("route", "list")
    nfiles = 0
    sample_files = None
    for tab, layout in item["tables"]:
        tab = tuple(tab)
        files = tree_files(kind, tab)
        if files is None:
            continue  # no old name that a tree could mention
        r.programs += 1
        sample_files = sample_files or (files, tab, layout)
        la = line_alphabet(tab)
        cache: dict = {}
        n0 = nfiles
        for n in range(1, item["maxlen"] + 1):
            for lines in itertools.permutations(la, n):
                check_file(files, kind, tab, layout, list(lines), r, cache, route)
                nfiles += 1
        if route != "list":
            r.count("files_by_route:" + route.split(":")[0], nfiles - n0)
            continue
        if layout == "mm":
            for cfg in BLOCK_CFGS:
                check_block(files, kind, tab, layout, cfg, r)
        memo: dict = {}
        for tokens in composed_files(la, composed_level(item.get("tier", "quick"), kind, tab, layout)):
            check_composed(files, kind, tab, layout, tokens, r, memo)
            check_composed_requested(files, kind, tab, layout, tokens, r, memo)
            r.count("composed_files")
    if sample_files:
        files, tab, layout = sample_files
        content, listing = layout_files(tab, layout)
        r.sample = {"tree": kind, "kconfig": files["Kconfig"], "rename_files": {d + "/sdkconfig.rename": [ALPHABET[i] for i in idxs] for d, idxs in content.items()},
                    "rename_files_listed_as": listing, "rename_files_delivered_by": route,
                    "sdkconfig_files_per_table": nfiles // max(1, len(item["tables"])), "example_file": line_alphabet(tab)[:2]}
    return r


def replay(case) -> List[dict]:
    r = common.Result()
    kind = case.get("tree", "plain")
    layout = case["layout"] if "layout" in case else ("aa-zz" if case.get("split") else "mm")  # (`split`: replay files of older versions)
    tab = tuple(case["table"])
    if "live" in case:
        lv = case["live"]
        check_live(case["files"], kind, tab, layout, (lv["first"][0], lv["first"][1]), lv["second"], lv["load_deprecated"], lv["replace"], lv["read"], r)
    elif "lines" in case:
        check_file(case["files"], kind, tab, layout, case["lines"], r, None, case.get("route", "list"))
    elif "composed" in case and case.get("requested"):
        check_composed_requested(case["files"], kind, tab, layout, case["composed"], r)
    elif "composed" in case:
        check_composed(case["files"], kind, tab, layout, case["composed"], r)
    else:
        check_block(case["files"], kind, tab, layout, case["block_assign"], r)
    return r.viols

"""C20 -- generated documentation omits only unreachable options and has no dangling links.

E  trees in the ESP-IDF idiom: IDF_TARGET (string, default from the environment), promptless IDF_TARGET_CHIPA/B, promptless
   capabilities SOC_CAP (bool) / SOC_NUM (int) derived from the target, FORCED (prompted, force-selected by IDF_TARGET_CHIPA),
   DERIV (promptless, derived from a user option), UG (prompt gated by a user option), GATED (prompt gated by the target),
   SOC_UNDEF (referenced, never defined), user options U1 U2 (bool) N (int) S (string); MIRROR symbols, whose default VALUE
   (not condition) is a symbol: MIR_B `default U1`, MIR_NOT `default !U1`, MIR_E `default U1 && U2`, MIR_TC `default U1 if
   IDF_TARGET_CHIPA`, MIR_PG (prompt `if IDF_TARGET_CHIPB`, `default U1`), MIR_2 `default MIR_B`, MIR_I int `default N`,
   MIR_S string `default S` (all follow the user; at the defaults U1=n N=4 S="d" a dependency on them is false) and the
   controls MIR_T `default IDF_TARGET_CHIPB`, MIR_NI int `default SOC_NUM` (really fixed by the target); an expression E ranging over every
   expression of the bounded alphabet (see RULE) placed at every documented site, in three program groups:
     deps        P_DEP `depends on E` (+ dependent child), `if E` block, prompt condition `if E`, option defined twice
     containers  menu `depends on E`, menu `visible if E`, choice `depends on E`, choice member `depends on E` / inside `if E` /
                 with prompt condition `if E`, menuconfig; the members are referenced OUTSIDE conditions, where the generator
                 prints a symbol as a link without folding it: they `select` / `set` documented options (forward and
                 "forced by" rows), are the default VALUE of another option and the VALUE of another option's `set`
     conds       `range .. if E`, `default .. if E`, `select T if E`, `set T=v if E` on options that have their own `depends on`
     reverse     `select T if E` / `set T=v if E` / `set T=v if !E` / `set default T=v if E` where the TARGET T itself `depends on E`
                 (sources with a user dependency, without dependencies, and -- the mirror image -- a source that `depends on E`
                 acting on a target that depends on a user option): the "forcefully enabled by" / "set by .. to .." rows
   TWICE-DEFINED options as operands of E (both tiers): a prompted user option that another file defines a second time --
   without a prompt (`default y if <target>` / `default y if <user option>`, before or after the prompt) or with a prompt inside
   a menu that is hidden for the target (before or after) -- and, as the control, one whose two definitions both depend on the
   same target;
   plus fixed programs (excluded menu names, nested menus, multi-level breadcrumbs); targets chipa and chipb; a rename file
   (deprecated section);
   plus the SPECIAL MENU NAMES family: every name the generator never writes a section for (read from the EXCLUDE*/SKIP*/
   IGNORE*/HIDDEN* string-list constants of gen_kconfig_doc, today EXCLUDED_MENU_NAMES, plus the two names the ESP-IDF build
   generates) and near-miss names that are ordinary menus (lower-cased, with a suffix, a prefix of it), as the full product of
     position  top level | in a visible menu | two menus deep | under a menuconfig | in an `if` inside a menu | in a menu that
               depends on the target | in a menu with `visible if <capability>` | inside the OTHER special menu (nested and at
               top level) | inside a menu of the SAME name
     carrier   plain menu | menu `depends on <target>` | menu `depends on <user option>` | menu `visible if <user option>`
     content   empty | documented options (one depending on the other) | options linked with the outside (select / set / default
               value in both directions) | sub menu with options | sub menu two deep | choice | menuconfig with child | the other
               special menu nested inside (with a menu below both) | target-/user-gated options
     siblings  none | ordinary menu before | option + menu after | both | the other special menu as a sibling
   (so every "Contains:" list, every "Found in:" breadcrumb of an option below a special menu, every link to / from an option
   inside one, and every anchor composed from a special name is produced), and the special name as the prompt of something that
   is NOT a menu (menuconfig, bool/int config, choice, comment) at every position.
   plus the SEVERAL CHOICES family: two and three choices in one tree, each unnamed or named (every pattern with at least one
   unnamed choice), each with its own target visibility (none | depends on chipa / chipb | depends on a user option | inside a
   menu / an `if` that depends on chipa / chipb), each followed by an option that refers to a member; and a menu whose TITLE
   equals the NAME of an option with a different target visibility (both orders);
   Driver: kconfgen.core.write_docs(kconfig, file) -- the function behind `kconfgen --output docs` -- with IDF_TARGET set.
O  (a) every option/choice with a prompt that the real evaluator reports visible in SOME assignment of the user-settable
       options (fresh Kconfig per assignment, Symbol.set_value, .visibility) has its anchor `.. _CONFIG_<name>:` in the text;
   (b) gen_kconfig_doc._prepare_cond is wrapped during generation to record (condition, stripped direct deps, shown);
       for every assignment  value(condition) AND value(deps) == value(shown) AND value(deps)  with esp_kconfiglib.expr_value
       on a fresh instance (shown None == n: the generator states that the row never applies); `deps` are NOT taken from the
       call: they are the dependencies of the option the printed row is about -- the documented option for its own range /
       default / "forcefully enables" / "sets" rows, the SOURCE for a "forcefully enabled by <source>" / "set by <source>" row
       (select / set do not look at the dependencies of their target);
   (c) every :ref: target in the text is defined by a `.. _anchor:` in the same text.
   In the special-name family (a) says that the options inside a special menu (and options that merely carry its name as their
   prompt) are documented like any other, (c) that nothing links to the section that is never written.
   A violation of (a)/(b) is attributed to the smallest sub-expression whose folding by _minimize_expr changes its value in
   some assignment (operator, operand kinds, what it was folded to); if there is none the site of the condition is named.
"""

from __future__ import annotations

import itertools
import os
import re
import traceback
from typing import Any, Dict, List, Optional, Tuple

from .. import common, impl, kgen
from ..kgen import And, Cfg, Choice, If, L, Menu, Not, Or, Program, Rel, S

ID = "C20"
LEVEL = "exploration"
RULE = (
    "expressions E: bool atoms A0 = {U1,U2,FORCED,IDF_TARGET_CHIPA,IDF_TARGET_CHIPB,SOC_CAP,SOC_UNDEF,DERIV,UG,GATED}; mirror atoms M = "
    "{MIR_B,MIR_NOT,MIR_E,MIR_TC,MIR_PG,MIR_2,MIR_T}, mirror relations RM = 7 numeric pairs over MIR_I/MIR_NI x six relations + 9 "
    "bool/string pairs over MIR_S/MIR_* x {=,!=}; mirror family (both tiers): m, !m, all of RM, !r for 6 key mirror relations, "
    "{x op c, c op x} for x in M + key mirror relations x partners {U2,IDF_TARGET_CHIPA,!IDF_TARGET_CHIPB,SOC_UNDEF,FORCED}, ordered "
    "pairs of 5 mirror atoms, 12 negated/mixed forms; in thorough M joins A0 and RM joins R in every construction below (of RM only "
    "the 6 key mirror relations take part in the depth-2 products). relations R = "
    "numeric operand pairs {(N,3),(N,1.5),(N,SOC_NUM),(SOC_NUM,3),(3,N),(N,N)[,(SOC_NUM,N),(N,0x3),(SOC_NUM,1.5),"
    "(S,\"v1\") in thorough]} x all six relations + 15 bool/string pairs x {=,!=}; depth<=1: a, !a, a&&b, a||b (all "
    "ordered pairs of distinct atoms), all of R; depth 2 quick: !r for all r, {r op c, c op r} for 14 key relations x 4 partners, "
    "!(a op b), (a op b) op c over small atom sets; depth 2 thorough: x op y for all ordered pairs with one side in A0+!A0+R and "
    "the other in A0+!A0+key relations+{MIR_B, MIR_I<3} (A0 without M on this side), !(x) for every depth-1 x. Each E x 3 program groups (+ reverse, see above) x targets {chipa,chipb} x all "
    "assignments of the user-settable options that E (transitively) mentions (bool {n,y}, N {1,2,3,4}, S {v1,chipa,chipb,zz}; <=64). "
    "twice-defined family (both tiers): t, !t, t=y, t!=U2, {t op c, c op t} x partners {U2,IDF_TARGET_CHIPA,!IDF_TARGET_CHIPB,SOC_UNDEF}, "
    "3 negated/mixed forms for t in {TW_PL,TW_LP,TW_TH,TW_HT,TW_UD,TW_HH}, ordered pairs of the first 4. Every E of the QUICK tier is also placed (in both tiers) in the "
    "'reverse' group (target of select/set/set default depends on E). several-choices family: 8 visibilities ^ 2 x 3 naming patterns + "
    "4 visibilities ^ 3 x 7 naming patterns, + 3 x 2 menu-titled-like-an-option programs. "
    "special menu names (both tiers): names = string-list constants EXCLUDE*/SKIP*/IGNORE*/HIDDEN* of gen_kconfig_doc + the 2 documented "
    "ESP-IDF wrapper names + near-miss control names (1 in quick, 3 in thorough); full product names x 10 positions x 4 carriers x 9 "
    "contents x 5 sibling layouts, plus names x 10 positions x 5 non-menu items carrying the name as prompt x 2 sibling layouts; "
    "user-settable options of these trees (U1, enclosing / inner menuconfig, X_A) fully enumerated. "
    "evaluations = doc generations + assignment evaluations. distinct_nontrivial = distinct (program, target, set of documented "
    "anchors, recorded condition triples) in which at least one condition was changed by the simplifier or an option was omitted, "
    "or which belong to the special-menu-name family."
)
ASSUMPTIONS = [
    "user-settable options that no expression mentions (the probes themselves) are left at their defaults: an under-approximation "
    "of the reachable configurations, so every alarm of (a) has a concrete witness assignment",
    "'option' = symbol or choice with a prompt; menus are not options ((c) still covers their anchors)",
    "a menu the generator excludes by name may stay without a section (the property speaks of options); its options must be "
    "documented and nothing may link to the missing section. A menuconfig symbol / choice whose PROMPT equals such a name is an option",
    "special names containing a double quote or a newline cannot be written as a Kconfig prompt by the renderer and are not generated",
    "(b) is checked modulo the direct dependencies of the option the row is about (the documented option, or the source of a "
    "'forcefully enabled by' / 'set by' row), as the generator prints them once under that option's 'Symbol can be set when'; where two "
    "rows share one condition object (an unconditional row's condition IS the dependency symbol) any of their readings is accepted",
    "a choice without a name has no anchor of its own to demand ((a) is checked on its members, which are options with a prompt); "
    "that the generator gives every unnamed choice the same anchor `CONFIG_None` is outside the statement (no :ref: points at it)",
    "`set default` produces no row in the documentation; it is generated so that its presence does not disturb the other rows",
    "ordering relations (<,<=,>,>=) are generated only for numeric operand pairs (and one string pair in thorough)",
    "mirror symbols take a plain symbol, its negation or one conjunction as default value, with no or a target-constant condition; "
    "the user symbol's default (U1=n, U2=y, N=4, S=\"d\") is the 'current value' during generation, so both a dependency that is false "
    "now (omission, (a)) and one that is true now (condition shown as always true, (b)) are explored",
    "choice members are referenced as select/set sources, default values and set values only; `select <member>` is not generated "
    "(the library warns about selecting a choice member)",
    "an undefined symbol (omitted SOC_* capability) occurs only in bool context, where both the library and the generator read it "
    "as n; as an operand of a relation the documents do not say what it means (the library compares its NAME as a string, the "
    "generator substitutes n), so that construct is not generated",
]

TARGETS = ("chipa", "chipb")

# --------------------------------------------------------------------------------------------------
# the idiom: base symbols
# --------------------------------------------------------------------------------------------------

ORDER = ["IDF_TARGET", "IDF_TARGET_CHIPA", "IDF_TARGET_CHIPB", "SOC_CAP", "SOC_NUM", "FORCED", "U1", "U2", "N", "S", "DERIV", "UG", "GATED",
         "MIR_B", "MIR_NOT", "MIR_E", "MIR_TC", "MIR_PG", "MIR_2", "MIR_T", "MIR_I", "MIR_NI", "MIR_S",
         "TW_PL", "TW_LP", "TW_TH", "TW_HT", "TW_UD", "TW_HH"]
NEEDS = {
    "SOC_CAP": ["IDF_TARGET_CHIPA"],
    "SOC_NUM": ["IDF_TARGET_CHIPA", "IDF_TARGET_CHIPB"],
    "DERIV": ["U1"],
    "UG": ["U1"],
    "GATED": ["IDF_TARGET_CHIPB"],
    "MIR_B": ["U1"],
    "MIR_NOT": ["U1"],
    "MIR_E": ["U1", "U2"],
    "MIR_TC": ["U1", "IDF_TARGET_CHIPA"],
    "MIR_PG": ["U1", "IDF_TARGET_CHIPB"],
    "MIR_2": ["MIR_B"],
    "MIR_T": ["IDF_TARGET_CHIPB"],
    "MIR_I": ["N"],
    "MIR_NI": ["SOC_NUM"],
    "MIR_S": ["S"],
    "TW_PL": ["IDF_TARGET_CHIPB"],
    "TW_LP": ["IDF_TARGET_CHIPA"],
    "TW_TH": ["IDF_TARGET_CHIPB"],
    "TW_HT": ["IDF_TARGET_CHIPB"],
    "TW_UD": ["U2"],
    "TW_HH": ["IDF_TARGET_CHIPB"],
}
KIND = {
    "IDF_TARGET": "target_string",
    "IDF_TARGET_CHIPA": "target_bool",
    "IDF_TARGET_CHIPB": "target_bool",
    "SOC_CAP": "const_bool",
    "SOC_NUM": "const_int",
    "FORCED": "forced_bool",
    "U1": "free_bool",
    "U2": "free_bool",
    "N": "free_int",
    "S": "free_string",
    "DERIV": "derived_bool",
    "UG": "user_gated_bool",
    "GATED": "target_gated_bool",
    "SOC_UNDEF": "undefined",
    # mirrors: the user-settable symbol is the VALUE of the default, not its condition
    "MIR_B": "mirror_bool",
    "MIR_NOT": "mirror_bool_negated",
    "MIR_E": "mirror_bool_expr",
    "MIR_TC": "mirror_bool_target_cond",
    "MIR_PG": "mirror_bool_prompt_target_gated",
    "MIR_2": "mirror_of_mirror",
    "MIR_T": "mirror_of_target_bool",
    "MIR_I": "mirror_int",
    "MIR_NI": "mirror_of_const_int",
    "MIR_S": "mirror_string",
    # options defined at two places, the prompt the user reaches being on ONE of the definitions only
    "TW_PL": "twice_prompted_then_promptless",
    "TW_LP": "twice_promptless_then_prompted",
    "TW_TH": "twice_prompted_then_target_hidden_prompt",
    "TW_HT": "twice_target_hidden_prompt_then_prompted",
    "TW_UD": "twice_prompted_then_promptless_user_default",
    "TW_HH": "twice_both_prompts_target_gated",
}
DOMAIN = {
    "U1": ["n", "y"],
    "U2": ["n", "y"],
    "FORCED": ["n", "y"],
    "UG": ["n", "y"],
    "GATED": ["n", "y"],
    "MIR_PG": ["n", "y"],
    "TW_PL": ["n", "y"],
    "TW_LP": ["n", "y"],
    "TW_TH": ["n", "y"],
    "TW_HT": ["n", "y"],
    "TW_UD": ["n", "y"],
    "TW_HH": ["n", "y"],
    "N": ["1", "2", "3", "4"],
    "S": ["v1", "chipa", "chipb", "zz"],
    # user-settable options of the special-menu-name family (see special_programs)
    "W_MC": ["n", "y"],
    "X_MC": ["n", "y"],
    "X_A": ["n", "y"],
    "K_MC": ["n", "y"],
}


def base_cfg(name: str, present: List[str]) -> Cfg:
    if name == "IDF_TARGET":
        return Cfg(name, "string", defaults=[(L('"$IDF_TARGET"'), None)])
    if name == "IDF_TARGET_CHIPA":
        c = Cfg(name, "bool", defaults=[(L('"y"'), Rel("=", S("IDF_TARGET"), L('"chipa"')))])
        if "FORCED" in present:
            c.selects.append(("FORCED", None))
        return c
    if name == "IDF_TARGET_CHIPB":
        return Cfg(name, "bool", defaults=[(L('"y"'), Rel("=", S("IDF_TARGET"), L('"chipb"')))])
    if name == "SOC_CAP":
        return Cfg(name, "bool", defaults=[(L("y"), S("IDF_TARGET_CHIPA"))])
    if name == "SOC_NUM":
        return Cfg(name, "int", defaults=[(L("2"), S("IDF_TARGET_CHIPA")), (L("4"), S("IDF_TARGET_CHIPB"))])
    if name == "FORCED":
        return Cfg(name, "bool", prompt="forced on by chipa")
    if name == "U1":
        return Cfg(name, "bool", prompt="user option 1")
    if name == "U2":
        return Cfg(name, "bool", prompt="user option 2", defaults=[(L("y"), None)])
    if name == "N":
        return Cfg(name, "int", prompt="user number", defaults=[(L("4"), None)])
    if name == "S":
        return Cfg(name, "string", prompt="user string", defaults=[(L('"d"'), None)])
    if name == "DERIV":
        return Cfg(name, "bool", defaults=[(L("y"), S("U1"))])
    if name == "UG":
        return Cfg(name, "bool", prompt="gated by a user option", depends=[S("U1")])
    if name == "GATED":
        return Cfg(name, "bool", prompt="gated by the target", depends=[S("IDF_TARGET_CHIPB")], defaults=[(L("y"), None)])
    # mirror symbols: promptless (or prompt switched off by the target) whose default VALUE is a symbol
    if name == "MIR_B":
        return Cfg(name, "bool", defaults=[(S("U1"), None)])
    if name == "MIR_NOT":
        return Cfg(name, "bool", defaults=[(Not(S("U1")), None)])
    if name == "MIR_E":
        return Cfg(name, "bool", defaults=[(And(S("U1"), S("U2")), None)])
    if name == "MIR_TC":
        return Cfg(name, "bool", defaults=[(S("U1"), S("IDF_TARGET_CHIPA"))])
    if name == "MIR_PG":
        return Cfg(name, "bool", prompt="mirror, settable on chipb only", prompt_cond=S("IDF_TARGET_CHIPB"), defaults=[(S("U1"), None)])
    if name == "MIR_2":
        return Cfg(name, "bool", defaults=[(S("MIR_B"), None)])
    if name == "MIR_T":
        return Cfg(name, "bool", defaults=[(S("IDF_TARGET_CHIPB"), None)])
    if name == "MIR_I":
        return Cfg(name, "int", defaults=[(S("N"), None)])
    if name == "MIR_NI":
        return Cfg(name, "int", defaults=[(S("SOC_NUM"), None)])
    if name == "MIR_S":
        return Cfg(name, "string", defaults=[(S("S"), None)])
    raise KeyError(name)


def base_cfgs(name: str, present: List[str]) -> List[Cfg]:
    """All definitions of a base symbol, in file order.  TW_*: the option of one component that a board / SoC file defines a
    SECOND time to add a target-specific default (no prompt) or a target-specific prompt."""
    cb, ca = S("IDF_TARGET_CHIPB"), S("IDF_TARGET_CHIPA")
    if name == "TW_PL":
        return [Cfg(name, "bool", prompt="defined twice: prompt, then a promptless default"), Cfg(name, "bool", defaults=[(L("y"), cb)])]
    if name == "TW_LP":
        return [Cfg(name, "bool", defaults=[(L("y"), ca)]), Cfg(name, "bool", prompt="defined twice: promptless default, then the prompt")]
    if name == "TW_TH":
        return [Cfg(name, "bool", prompt="defined twice: prompt, then a prompt in a chipb-only menu"),
                Menu(title="Board file (chip B), after", depends=[cb], children=[Cfg(name, "bool", prompt="defined twice (chipb part)", defaults=[(L("y"), None)])])]
    if name == "TW_HT":
        return [Menu(title="Board file (chip B), before", depends=[cb], children=[Cfg(name, "bool", prompt="defined twice (chipb part)", defaults=[(L("y"), None)])]),
                Cfg(name, "bool", prompt="defined twice: prompt in a chipb-only menu, then the prompt")]
    if name == "TW_UD":
        return [Cfg(name, "bool", prompt="defined twice: prompt, then a promptless default from a user option"), Cfg(name, "bool", defaults=[(L("y"), S("U2"))])]
    if name == "TW_HH":
        # control: both definitions depend on the same target -> really fixed (n) on the other target
        return [Cfg(name, "bool", prompt="defined twice, both chipb only", depends=[cb]), Cfg(name, "bool", prompt="defined twice, both chipb only (2)", depends=[cb], defaults=[(L("y"), None)])]
    return [base_cfg(name, present)]


def base_list(present: List[str]) -> List[Any]:
    return [c for n in present for c in base_cfgs(n, present)]


def closure(names: List[str]) -> List[str]:
    need = {"IDF_TARGET", "IDF_TARGET_CHIPA", "IDF_TARGET_CHIPB"}
    todo = list(names)
    while todo:
        n = todo.pop()
        if n in need or n not in ORDER:
            continue
        need.add(n)
        todo.extend(NEEDS.get(n, []))
    return [n for n in ORDER if n in need]


# --------------------------------------------------------------------------------------------------
# expressions
# --------------------------------------------------------------------------------------------------

A0 = [S(n) for n in ("U1", "U2", "FORCED", "IDF_TARGET_CHIPA", "IDF_TARGET_CHIPB", "SOC_CAP", "SOC_UNDEF", "DERIV", "UG", "GATED")]
NUM_PAIRS_Q = [(S("N"), L("3")), (S("N"), L("1.5")), (S("N"), S("SOC_NUM")), (S("SOC_NUM"), L("3")), (L("3"), S("N")), (S("N"), S("N"))]
NUM_PAIRS_T = NUM_PAIRS_Q + [
    (S("SOC_NUM"), S("N")),
    (S("N"), L("0x3")),
    (S("SOC_NUM"), L("1.5")),
    (S("S"), L('"v1"')),
]
EQ_PAIRS = [
    (S("S"), L('"v1"')),
    (S("S"), L('"chipa"')),
    (S("S"), S("IDF_TARGET")),
    (S("IDF_TARGET"), L('"chipa"')),
    (S("IDF_TARGET"), L('"chipb"')),
    (S("U1"), L("y")),
    (S("U1"), L("n")),
    (S("U1"), S("U2")),
    (S("IDF_TARGET_CHIPA"), L("y")),
    (S("FORCED"), L("y")),
    (S("SOC_CAP"), S("U1")),
    (S("UG"), L("y")),
    (S("DERIV"), L("n")),
    (S("GATED"), L("y")),
    (L('"chipa"'), S("S")),
]
KEY_RELS = [
    Rel("=", S("N"), L("3")),
    Rel("!=", S("N"), L("3")),
    Rel("<", S("N"), L("3")),
    Rel(">=", S("N"), S("SOC_NUM")),
    Rel("<", S("N"), L("1.5")),
    Rel("<", S("SOC_NUM"), L("3")),
    Rel("!=", S("SOC_NUM"), L("3")),
    Rel("=", S("S"), L('"v1"')),
    Rel("!=", S("S"), L('"v1"')),
    Rel("=", S("IDF_TARGET"), L('"chipa"')),
    Rel("!=", S("IDF_TARGET"), L('"chipb"')),
    Rel("=", S("S"), S("IDF_TARGET")),
    Rel("!=", S("U1"), S("U2")),
    Rel("=", S("U1"), L("y")),
]


# mirrors (promptless / target-gated symbols whose default VALUE is a symbol): bool atoms and relation operand pairs
MIRROR_ATOMS = [S(n) for n in ("MIR_B", "MIR_NOT", "MIR_E", "MIR_TC", "MIR_PG", "MIR_2", "MIR_T")]
MIRROR_NUM_PAIRS = [
    (S("MIR_I"), L("3")),
    (L("3"), S("MIR_I")),
    (S("MIR_I"), S("SOC_NUM")),
    (S("MIR_I"), S("N")),
    (S("MIR_NI"), L("3")),
    (S("N"), S("MIR_NI")),
    (S("MIR_I"), S("MIR_NI")),
]
MIRROR_EQ_PAIRS = [
    (S("MIR_S"), L('"v1"')),
    (S("MIR_S"), S("IDF_TARGET")),
    (S("MIR_S"), S("S")),
    (S("MIR_B"), L("y")),
    (S("MIR_B"), S("U1")),
    (S("MIR_NOT"), L("n")),
    (S("MIR_2"), S("U2")),
    (S("MIR_T"), L("y")),
    (S("MIR_PG"), S("MIR_B")),
]
MIRROR_KEY_RELS = [
    Rel("<", S("MIR_I"), L("3")),
    Rel(">=", S("MIR_I"), S("SOC_NUM")),
    Rel("!=", S("MIR_I"), L("3")),
    Rel("<", S("MIR_NI"), L("3")),
    Rel("=", S("MIR_S"), L('"v1"')),
    Rel("!=", S("MIR_S"), S("IDF_TARGET")),
]


def mirror_relations() -> List[tuple]:
    out = []
    for a, b in MIRROR_NUM_PAIRS:
        for op in kgen.RELS:
            out.append(Rel(op, a, b))
    for a, b in MIRROR_EQ_PAIRS:
        for op in ("=", "!="):
            out.append(Rel(op, a, b))
    return out


def mirror_expressions() -> List[tuple]:
    """The quick-tier family over the mirror symbols (in thorough they are ordinary members of A0 / R)."""
    R = mirror_relations()
    out: List[tuple] = list(MIRROR_ATOMS) + [Not(a) for a in MIRROR_ATOMS] + R + [Not(r) for r in MIRROR_KEY_RELS]
    partners = [S("U2"), S("IDF_TARGET_CHIPA"), Not(S("IDF_TARGET_CHIPB")), S("SOC_UNDEF"), S("FORCED")]
    for m in MIRROR_ATOMS + MIRROR_KEY_RELS:
        for c in partners:
            out += [And(m, c), And(c, m), Or(m, c), Or(c, m)]
    for a, b in itertools.permutations(MIRROR_ATOMS[:4] + [S("MIR_2")], 2):
        out += [And(a, b), Or(a, b)]
    for m in MIRROR_ATOMS[:3]:
        out += [Not(And(m, S("U2"))), Not(Or(m, S("IDF_TARGET_CHIPA"))), And(Not(m), S("U2")), Or(Not(m), S("IDF_TARGET_CHIPB"))]
    return out


TWICE_ATOMS = [S(n) for n in ("TW_PL", "TW_LP", "TW_TH", "TW_HT", "TW_UD", "TW_HH")]


def twice_expressions() -> List[tuple]:
    """Both tiers: options defined at two places with the reachable prompt on one definition only, as a dependency."""
    out: List[tuple] = list(TWICE_ATOMS) + [Not(a) for a in TWICE_ATOMS]
    partners = [S("U2"), S("IDF_TARGET_CHIPA"), Not(S("IDF_TARGET_CHIPB")), S("SOC_UNDEF")]
    for t in TWICE_ATOMS:
        out += [Rel("=", t, L("y")), Rel("!=", t, S("U2"))]
        for c in partners:
            out += [And(t, c), And(c, t), Or(t, c), Or(c, t)]
        out += [Not(And(t, S("U2"))), And(Not(t), S("U2")), Or(Not(t), S("IDF_TARGET_CHIPB"))]
    for a, b in itertools.permutations(TWICE_ATOMS[:4], 2):
        out += [And(a, b), Or(a, b)]
    return out


def relations(tier: str) -> List[tuple]:
    out = []
    seen = set()
    for a, b in NUM_PAIRS_T if tier == "thorough" else NUM_PAIRS_Q:
        for op in kgen.RELS:
            out.append(Rel(op, a, b))
    for a, b in EQ_PAIRS:
        for op in ("=", "!="):
            out.append(Rel(op, a, b))
    if tier == "thorough":
        out += mirror_relations()
    res = []
    for e in out:
        if e not in seen:
            seen.add(e)
            res.append(e)
    return res


def expressions(tier: str) -> List[tuple]:
    R = relations(tier)
    atoms = list(A0) + (MIRROR_ATOMS if tier == "thorough" else [])
    neg = [Not(a) for a in atoms]
    d1: List[tuple] = list(atoms) + neg + R
    for a, b in itertools.permutations(atoms, 2):
        d1.append(And(a, b))
        d1.append(Or(a, b))
    out = list(d1)
    if tier == "quick":
        out += [Not(r) for r in R]
        partners = [S("U1"), S("IDF_TARGET_CHIPA"), Not(S("IDF_TARGET_CHIPB")), S("SOC_UNDEF")]
        for r in KEY_RELS:
            for c in partners:
                out += [And(r, c), And(c, r), Or(r, c), Or(c, r)]
        small = [S("U1"), S("IDF_TARGET_CHIPA"), S("SOC_CAP"), S("UG")]
        for a, b in itertools.permutations(small, 2):
            out += [Not(And(a, b)), Not(Or(a, b))]
        tri = [S("U1"), S("IDF_TARGET_CHIPA"), S("SOC_UNDEF")]
        for a, b, c in itertools.product(tri, repeat=3):
            if a == b:
                continue
            out += [And(And(a, b), c), Or(And(a, b), c), And(Or(a, b), c), Or(Or(a, b), c)]
    else:
        rm = set(mirror_relations()) - set(MIRROR_KEY_RELS)
        wide = list(atoms) + neg + [r for r in R if r not in rm]
        narrow = list(A0) + [Not(a) for a in A0] + KEY_RELS + [S("MIR_B"), MIRROR_KEY_RELS[0]]
        pairs = []
        seenp = set()
        for x in wide:
            for y in narrow:
                for p in ((x, y), (y, x)):
                    if p[0] != p[1] and p not in seenp:
                        seenp.add(p)
                        pairs.append(p)
        for x, y in pairs:
            out += [And(x, y), Or(x, y)]
        out += [Not(x) for x in d1 if x[0] != "s"]
        tri = [S("U1"), S("IDF_TARGET_CHIPA"), S("SOC_UNDEF"), S("FORCED"), S("UG")]
        for a, b, c in itertools.product(tri, repeat=3):
            if a == b:
                continue
            out += [And(And(a, b), c), Or(And(a, b), c), And(Or(a, b), c), Or(Or(a, b), c)]
    out += mirror_expressions()
    out += twice_expressions()
    # precedence / parenthesisation probes over three USER-SETTABLE operands (right- and left-nested, mixed operators)
    rel = KEY_RELS[0]
    for a, b, c in list(itertools.permutations((S("U1"), S("U2"), S("UG")), 3)) + [(S("U1"), S("U2"), rel), (rel, S("U1"), S("U2")), (S("U1"), rel, S("U2"))]:
        out += [And(a, Or(b, c)), Or(a, And(b, c)), And(Or(a, b), c), Or(And(a, b), c), Not(And(a, Or(b, c))), And(Not(a), Or(b, c)),
                And(a, Or(b, Not(c))), Or(Not(a), And(b, c)), And(a, Not(Or(b, c)))]
    res, seen = [], set()
    for e in out:
        if e not in seen:
            seen.add(e)
            res.append(e)
    return res


# --------------------------------------------------------------------------------------------------
# programs
# --------------------------------------------------------------------------------------------------

GROUPS = ("deps", "containers", "conds", "reverse")


def build_program(group: str, E: Optional[tuple]) -> Tuple[Program, List[str], List[str]]:
    """(program, user-settable variables to enumerate, rename lines)"""
    used = kgen.expr_syms(E) if E is not None else []
    extra: List[str] = []
    kids: List[Any] = []
    renames: List[str] = []
    if group == "deps":
        kids.append(Cfg("P_DEP", "bool", prompt="probe: depends on", depends=[E], defaults=[(L("y"), None)], help="Help of the probe."))
        kids.append(Cfg("P_CHILD", "bool", prompt="probe: depends on the probe", depends=[S("P_DEP")]))
        kids.append(If(cond=E, children=[Cfg("P_IF", "int", prompt="probe: inside if", defaults=[(L("1"), None)])]))
        kids.append(Cfg("P_PC", "bool", prompt="probe: prompt condition", prompt_cond=E))
        kids.append(Cfg("P_MD", "bool", prompt="probe: defined twice", depends=[E]))
        kids.append(Cfg("P_MD", "bool", prompt="probe: defined twice", depends=[S("IDF_TARGET_CHIPB")]))
        renames = ["CONFIG_OLD_P_DEP CONFIG_P_DEP", "CONFIG_OLD_P_IF CONFIG_P_IF", "CONFIG_OLD_P_INV !CONFIG_P_PC", "CONFIG_OLD_P_MD CONFIG_P_MD"]
    elif group == "containers":
        kids.append(Menu(title="Probe menu (depends on)", depends=[E], children=[Cfg("P_MDEP", "bool", prompt="probe: in menu with depends on")]))
        kids.append(
            Menu(
                title="Probe menu (visible if)",
                visible_if=[E],
                children=[
                    Cfg("P_MVIS", "bool", prompt="probe: in menu with visible if"),
                    Cfg("P_MVIS_I", "int", prompt="probe: int in menu with visible if", defaults=[(L("5"), None)]),
                ],
            )
        )
        # choice members also ACT on documented options (select / set) and are used as VALUES (default value, set value)
        # by other options: places where a symbol is printed as a link without being folded
        kids.append(Cfg("T_SEL", "bool", prompt="selected by members"))
        kids.append(Cfg("T_SET", "int", prompt="set by members", defaults=[(L("0"), None)]))
        kids.append(Cfg("T_SB", "bool", prompt="set to a member"))
        kids.append(
            Choice(
                name="P_CH",
                prompt="probe: choice with depends on",
                depends=[E],
                defaults=[("P_CH_A", None)],
                children=[
                    Cfg("P_CH_A", "bool", prompt="a", help="Help of a member.", selects=[("T_SEL", None)]),
                    Cfg("P_CH_B", "bool", prompt="b", sets=[("T_SET", L("5"), None)]),
                ],
            )
        )
        kids.append(
            Choice(
                name="P_CM",
                prompt="probe: choice with a dependent member",
                children=[
                    Cfg("P_CM_A", "bool", prompt="a", depends=[E], selects=[("T_SEL", None)], sets=[("T_SET", L("7"), None)], help="Help of the dependent member."),
                    Cfg("P_CM_B", "bool", prompt="b", sets=[("T_SB", S("P_CM_A"), None)]),
                    If(cond=E, children=[Cfg("P_CM_C", "bool", prompt="c (inside if)", selects=[("T_SEL", None)])]),
                    Cfg("P_CM_D", "bool", prompt="d (prompt condition)", prompt_cond=E, sets=[("T_SET", L("9"), None)]),
                ],
            )
        )
        kids.append(Cfg("P_MC", "bool", prompt="probe: menuconfig", depends=[E], defaults=[(L("y"), None)], menuconfig=True))
        kids.append(Cfg("P_MC_C", "bool", prompt="probe: child of menuconfig", depends=[S("P_MC")]))
        kids.append(Cfg("P_REF", "bool", prompt="probe: refers to members", defaults=[(L("y"), S("P_CH_A")), (L("n"), S("P_CM_A"))]))
        kids.append(Cfg("P_DV", "bool", prompt="probe: default value is a member", defaults=[(S("P_CM_A"), S("T_SB")), (S("P_CM_C"), S("T_SEL")), (S("P_CH_B"), None)]))
        kids.append(Cfg("P_SV", "bool", prompt="probe: sets an option to a member", sets=[("T_SB", S("P_CM_C"), None), ("T_SB", S("P_CH_A"), S("T_SEL"))]))
        renames = ["CONFIG_OLD_P_MDEP CONFIG_P_MDEP", "CONFIG_OLD_P_CH_A CONFIG_P_CH_A", "CONFIG_OLD_P_MC CONFIG_P_MC", "CONFIG_OLD_P_CH CONFIG_P_CH"]
    elif group == "conds":
        extra = ["U2"]
        kids.append(Cfg("T_B", "bool", prompt="target of select"))
        kids.append(Cfg("T_PL", "bool"))
        kids.append(Cfg("T_I", "int", prompt="target of set", defaults=[(L("0"), None)]))
        kids.append(
            Cfg(
                "P_R",
                "int",
                prompt="probe: conditional range and default",
                depends=[S("U2")],
                ranges=[(L("1"), L("5"), E), (L("0"), L("9"), None)],
                defaults=[(L("3"), E), (L("2"), None)],
            )
        )
        kids.append(
            Cfg(
                "P_S",
                "bool",
                prompt="probe: conditional select and set",
                depends=[S("U2")],
                selects=[("T_B", E), ("T_PL", E)],
                sets=[("T_I", L("7"), E)],
            )
        )
        kids.append(Cfg("P_D", "string", prompt="probe: conditional default, no depends", defaults=[(L('"a"'), E), (S("S"), Not(E)), (L('"c"'), None)]))
        extra.append("S")
        renames = ["CONFIG_OLD_P_R CONFIG_P_R", "CONFIG_OLD_T_PL CONFIG_T_PL"]
    elif group == "reverse":
        # select / set / set default whose condition mentions the TARGET option's own dependency (and, as the control, the
        # source's): the rows under "Following symbols affect the value of this symbol" are conditions of the SOURCE
        extra = ["U2"]
        kids.append(Cfg("R_TI", "int", prompt="target: depends on E, set if E", depends=[E], defaults=[(L("0"), None)]))
        kids.append(Cfg("R_TN", "int", prompt="target: depends on E, set if !E", depends=[E], defaults=[(L("0"), None)]))
        kids.append(Cfg("R_TB", "bool", prompt="target: depends on E, selected if E", depends=[E]))
        kids.append(Cfg("R_TU", "int", prompt="target: depends on U2, set by a source that depends on E", depends=[S("U2")], defaults=[(L("0"), None)]))
        kids.append(Cfg("R_TW", "int", prompt="target: depends on E, weakly set", depends=[E], defaults=[(L("0"), None)]))
        kids.append(
            Cfg(
                "R_SRC",
                "bool",
                prompt="source: depends on a user option",
                depends=[S("U2")],
                selects=[("R_TB", E)],
                sets=[("R_TI", L("9"), E), ("R_TN", L("8"), Not(E)), ("R_TI", L("7"), None)],
                wsets=[("R_TW", L("6"), E)],
            )
        )
        kids.append(Cfg("R_SRC2", "bool", prompt="source: no dependencies", sets=[("R_TI", L("5"), E), ("R_TN", L("4"), Not(E))], selects=[("R_TB", E)]))
        kids.append(Cfg("R_SRC3", "bool", prompt="source: depends on E", depends=[E], sets=[("R_TU", L("3"), E), ("R_TU", L("2"), S("U2")), ("R_TI", L("1"), S("U2"))], selects=[("R_TB", S("U2"))]))
        renames = ["CONFIG_OLD_R_TI CONFIG_R_TI"]
    else:
        raise ValueError(group)
    present = closure(used + extra)
    base = base_list(present)
    variables = [n for n in present if n in DOMAIN and (n in closure(used) or n in extra)]
    # S is only a value in the conds group (default S): no need to enumerate it unless E mentions it
    if group == "conds" and "S" not in closure(used):
        variables = [v for v in variables if v != "S"]
    return Program(title="Main menu", children=base + kids), variables, renames


def fixed_programs() -> List[Tuple[str, Program, List[str], List[str]]]:
    """Programs that do not depend on E: (c) and (a) in structures of the ESP-IDF build."""
    out = []
    base = [base_cfg(n, closure(["U1", "FORCED", "SOC_CAP"])) for n in closure(["U1", "FORCED", "SOC_CAP"])]
    for title in ("Configuration for components not included in the build", "Project configuration for components not included in the build"):
        kids = [
            Menu(title="Component config", children=[Cfg("F_IN", "bool", prompt="option in a plain menu")]),
            Menu(title=title, children=[Cfg("F_EX", "bool", prompt="option in the excluded menu"), Menu(title="Sub menu", children=[Cfg("F_EX2", "int", prompt="deeper", defaults=[(L("1"), S("F_EX"))])])]),
        ]
        out.append((f"excluded_menu:{title.split()[0].lower()}", Program(title="Main menu", children=base + kids), ["U1"], ["CONFIG_OLD_F_EX CONFIG_F_EX"]))
    kids = [
        Menu(
            title="Outer (menu)",
            children=[
                Menu(title="Inner: a/b & c", depends=[S("IDF_TARGET_CHIPA")], children=[Cfg("F_A", "bool", prompt="inner a"), Cfg("F_A2", "bool", prompt="inner a2", depends=[S("F_A")])]),
                Menu(title="Inner vis", visible_if=[S("SOC_CAP")], children=[Cfg("F_B", "hex", prompt="inner b", defaults=[(L("0x10"), S("F_A")), (L("0x20"), None)])]),
                Cfg("F_C", "bool", prompt="selects inner", selects=[("F_A", S("U1")), ("F_HID", None)]),
                Cfg("F_HID", "bool", prompt="hidden on chipa", depends=[S("IDF_TARGET_CHIPB")]),
                kgen.Comment(text="a comment", depends=[S("U1")]),
            ],
        )
    ]
    out.append(("nested_menus", Program(title="Main menu", children=base + kids), ["U1", "FORCED"], ["CONFIG_OLD_F_HID CONFIG_F_HID", "CONFIG_OLD_F_A CONFIG_F_A"]))
    # one option defined at two places, one of which is dead for a target (in both orders, and under menu / if / choice-less containers)
    for order in ("dead_first", "live_first"):
        for dead_target in ("IDF_TARGET_CHIPA", "IDF_TARGET_CHIPB"):
            dead = Menu(title=f"Only {dead_target}", depends=[S(dead_target)], children=[Cfg("F_SH", "int", prompt="shared (target part)", defaults=[(L("1"), None)]), Cfg("F_T", "bool", prompt="target only")])
            live = Menu(title="Common services", children=[Cfg("F_SH", "int", prompt="shared (common part)", defaults=[(L("2"), None)]), Cfg("F_SH2", "bool", prompt="uses shared", depends=[Rel(">", S("F_SH"), L("0"))])])
            also = kgen.If(cond=S("U1"), children=[Cfg("F_SH", "int", prompt="shared (if part)")])
            kids = [dead, live, also] if order == "dead_first" else [live, also, dead]
            out.append((f"twice_defined:{order}:{dead_target[-5:].lower()}", Program(title="Main menu", children=base + kids), ["U1"], []))
    return out


# --------------------------------------------------------------------------------------------------
# the special menu names (menus the generator never writes a section for) at every structural position
# --------------------------------------------------------------------------------------------------

# the wrappers the ESP-IDF build system generates for components outside the build (always explored, whatever the constant says)
DOCUMENTED_SPECIAL_NAMES = (
    "Configuration for components not included in the build",
    "Project configuration for components not included in the build",
)
SPECIAL_WRAPS = ("top", "menu", "menu2", "menuconfig", "if_in_menu", "gated_menu", "visif_menu", "in_other_special", "in_same_special", "in_top_special")
SPECIAL_CARRIERS = ("menu", "menu_dep_target", "menu_dep_user", "menu_visif_user")
SPECIAL_CONTENTS = ("empty", "opt", "linked", "sub", "sub2", "choice", "menuconfig", "nested_other", "gated")
SPECIAL_SIBLINGS = ("none", "before", "after", "both", "other_special")
SPECIAL_KINDS = ("menuconfig", "config", "int_config", "choice", "comment")


def special_names() -> Tuple[List[str], List[str]]:
    """(names the generator excludes, near-miss names that are ordinary menus).  The excluded names are read from every
    upper-case list/tuple/set-of-strings constant of gen_kconfig_doc whose name says EXCLUDE / SKIP / IGNORE / HIDDEN."""
    gd, _ = mods()
    names: List[str] = []
    for attr in sorted(vars(gd)):
        if not attr.isupper() or not re.search(r"EXCLUDE|SKIP|IGNORE|HIDDEN", attr):
            continue
        v = getattr(gd, attr)
        if isinstance(v, (list, tuple, set, frozenset)) and v and all(isinstance(x, str) for x in v):
            for x in v if isinstance(v, (list, tuple)) else sorted(v):
                if x not in names and '"' not in x and "\n" not in x:
                    names.append(x)
    for x in DOCUMENTED_SPECIAL_NAMES:
        if x not in names:
            names.append(x)
    near = [names[0].lower(), names[0] + " (old)", names[0].split(" for ")[0] + " for components"]
    return names, [n for n in near if n not in names]


def _special_content(kind: str, other: str) -> Tuple[List[Any], List[Any], List[str], List[str]]:
    """(children of the special menu, options defined OUTSIDE it, user-settable variables, rename lines)"""
    xa = Cfg("X_A", "bool", prompt="option in the special menu", help="Help of X_A.")
    xi = Cfg("X_I", "int", prompt="dependent option in the special menu", depends=[S("X_A")], defaults=[(L("3"), None)])
    xb = Cfg("X_B", "bool", prompt="second option in the special menu")
    ren = ["CONFIG_OLD_X_A CONFIG_X_A"]
    if kind == "empty":
        return [], [], [], []
    if kind == "opt":
        return [xa, xi], [], ["X_A"], ren + ["CONFIG_OLD_X_I CONFIG_X_I"]
    if kind == "linked":
        inside = [
            Cfg("X_A", "bool", prompt="option in the special menu", selects=[("OUT_T", None)], help="Help of X_A."),
            Cfg("X_B", "bool", prompt="selected from outside"),
            Cfg("X_D", "bool", prompt="default value is an outside option", defaults=[(S("OUT_T"), None)]),
            Cfg("X_N", "int", prompt="set from outside", defaults=[(L("1"), None)]),
        ]
        outside = [
            Cfg("OUT_T", "bool", prompt="selected from inside the special menu"),
            Cfg("OUT_S", "bool", prompt="selects into the special menu", selects=[("X_B", None)], sets=[("X_N", L("5"), S("X_A"))]),
            Cfg("OUT_V", "bool", prompt="default value is an inside option", defaults=[(S("X_A"), None), (S("X_B"), S("X_D"))]),
        ]
        return inside, outside, ["X_A"], ren + ["CONFIG_OLD_X_B !CONFIG_X_B"]
    if kind == "sub":
        return [Menu(title="Unused component", children=[xa, xi])], [], ["X_A"], ren
    if kind == "sub2":
        return [Menu(title="Sub", children=[Menu(title="Deeper: a/b & c", children=[xa]), xb]), Cfg("X_C", "hex", prompt="after the sub menu", defaults=[(L("0x10"), None)])], [], [], ren
    if kind == "choice":
        ch = Choice(name="X_CH", prompt="choice in the special menu", defaults=[("X_CH_A", None)],
                    children=[Cfg("X_CH_A", "bool", prompt="a", help="Help of a."), Cfg("X_CH_B", "bool", prompt="b")])
        return [ch, Cfg("X_R", "bool", prompt="refers to a member", defaults=[(L("y"), S("X_CH_B"))])], [], [], ["CONFIG_OLD_X_CH_A CONFIG_X_CH_A"]
    if kind == "menuconfig":
        return [Cfg("X_MC", "bool", prompt="menuconfig in the special menu", menuconfig=True), If(cond=S("X_MC"), children=[Cfg("X_MC_C", "bool", prompt="child of the menuconfig")])], [], ["X_MC"], ["CONFIG_OLD_X_MC CONFIG_X_MC"]
    if kind == "nested_other":
        return [Menu(title=other, children=[xa, Menu(title="Below both", children=[xb])]), Cfg("X_C", "bool", prompt="next to the nested special menu")], [], [], ren
    if kind == "gated":
        return [
            Cfg("X_G", "bool", prompt="chipb only", depends=[S("IDF_TARGET_CHIPB")]),
            Cfg("X_UG", "bool", prompt="gated by a user option", depends=[S("U1")]),
            Cfg("X_PC", "bool", prompt="prompt on chipa only", prompt_cond=S("IDF_TARGET_CHIPA")),
        ], [], [], ["CONFIG_OLD_X_G CONFIG_X_G"]
    raise ValueError(kind)


def _special_siblings(kind: str, other: str) -> Tuple[List[Any], List[Any]]:
    before = [Menu(title="Driver", children=[Cfg("SIB_A", "bool", prompt="sibling: in the menu before", defaults=[(L("y"), None)])])]
    after = [Cfg("SIB_O", "bool", prompt="sibling: option after"), Menu(title="Zeta services", children=[Cfg("SIB_Z", "int", prompt="sibling: in the menu after", defaults=[(L("1"), None)])])]
    if kind == "none":
        return [], []
    if kind == "before":
        return before, []
    if kind == "after":
        return [], after
    if kind == "both":
        return before, after
    if kind == "other_special":
        return before, [Menu(title=other, children=[Cfg("SIB_X", "bool", prompt="sibling: in the other special menu")])]
    raise ValueError(kind)


def _special_carrier(kind: str, name: str, children: List[Any]) -> List[Any]:
    if kind == "menu":
        return [Menu(title=name, children=children)]
    if kind == "menu_dep_target":
        return [Menu(title=name, depends=[S("IDF_TARGET_CHIPA")], children=children)]
    if kind == "menu_dep_user":
        return [Menu(title=name, depends=[S("U1")], children=children)]
    if kind == "menu_visif_user":
        return [Menu(title=name, visible_if=[S("U1")], children=children)]
    raise ValueError(kind)


def _special_kind(kind: str, name: str) -> Tuple[List[Any], List[str]]:
    """The special name as the prompt of something that is NOT a plain menu."""
    if kind == "menuconfig":
        return [Cfg("K_MC", "bool", prompt=name, menuconfig=True), If(cond=S("K_MC"), children=[Cfg("K_MC_C", "bool", prompt="child of the specially named menuconfig")])], ["K_MC"]
    if kind == "config":
        return [Cfg("K_C", "bool", prompt=name, help="Help of K_C.")], []
    if kind == "int_config":
        return [Cfg("K_I", "int", prompt=name, defaults=[(L("2"), None)]), Cfg("K_ID", "bool", prompt="depends on the specially named option", depends=[Rel(">", S("K_I"), L("0"))])], []
    if kind == "choice":
        return [Choice(name="K_CH", prompt=name, defaults=[("K_CH_A", None)], children=[Cfg("K_CH_A", "bool", prompt="a"), Cfg("K_CH_B", "bool", prompt="b")])], []
    if kind == "comment":
        return [kgen.Comment(text=name), Cfg("K_AFTER", "bool", prompt="after the specially named comment")], []
    raise ValueError(kind)


def _special_wrap(wrap: str, payload: List[Any], name: str, other: str) -> Tuple[List[Any], List[str]]:
    if wrap == "top":
        return payload, []
    if wrap == "menu":
        return [Menu(title="Component config", children=payload)], []
    if wrap == "menu2":
        return [Menu(title="Outer", children=[Cfg("W_O", "bool", prompt="option of the outer menu"), Menu(title="Middle: x/y", children=payload)])], []
    if wrap == "menuconfig":
        return [Cfg("W_MC", "bool", prompt="enclosing menuconfig", defaults=[(L("y"), None)], menuconfig=True), If(cond=S("W_MC"), children=payload)], ["W_MC"]
    if wrap == "if_in_menu":
        return [Menu(title="Component config", children=[If(cond=S("U1"), children=payload)])], []
    if wrap == "gated_menu":
        return [Menu(title="Only chip B", depends=[S("IDF_TARGET_CHIPB")], children=payload)], []
    if wrap == "visif_menu":
        return [Menu(title="Shown with the capability", visible_if=[S("SOC_CAP")], children=payload)], []
    if wrap == "in_other_special":
        return [Menu(title="Component config", children=[Menu(title=other, children=payload)])], []
    if wrap == "in_same_special":
        return [Menu(title="Component config", children=[Menu(title=name, children=payload)])], []
    if wrap == "in_top_special":
        return [Menu(title=other, children=payload)], []
    raise ValueError(wrap)


def special_programs(tier: str) -> List[Tuple[str, str, Program, List[str], List[str]]]:
    """(group, description, program, variables, renames): the full product of the dimensions below (both tiers; thorough adds
    the remaining near-miss names)."""
    names, near = special_names()
    if tier != "thorough":
        near = near[:1]
    base_names = closure(["U1", "SOC_CAP"])
    out = []
    all_names = [(n, True) for n in names] + [(n, False) for n in near]
    for idx, (name, is_special) in enumerate(all_names):
        other = names[(idx + 1) % len(names)] if is_special and len(names) > 1 else names[0]
        tag = f"{'special' if is_special else 'near'}{idx}"
        for wrap in SPECIAL_WRAPS:
            if wrap == "in_same_special" and not is_special:
                continue
            for sib in SPECIAL_SIBLINGS:
                for carrier in SPECIAL_CARRIERS:
                    for content in SPECIAL_CONTENTS:
                        inside, outside, v1, ren = _special_content(content, other)
                        before, after = _special_siblings(sib, other)
                        tree, v2 = _special_wrap(wrap, before + _special_carrier(carrier, name, inside) + after, name, other)
                        base = [base_cfg(n, base_names) for n in base_names]
                        variables = ["U1"] + v2 + [v for v in v1 if v not in v2]
                        out.append(("special_menu", f"name={tag} wrap={wrap} carrier={carrier} content={content} siblings={sib}",
                                    Program(title="Main menu", children=base + outside + tree), variables, ren))
                if sib in ("none", "both"):
                    for kind in SPECIAL_KINDS:
                        nodes, v1 = _special_kind(kind, name)
                        before, after = _special_siblings(sib, other)
                        tree, v2 = _special_wrap(wrap, before + nodes + after, name, other)
                        base = [base_cfg(n, base_names) for n in base_names]
                        out.append(("special_prompt", f"name={tag} wrap={wrap} kind={kind} siblings={sib}",
                                    Program(title="Main menu", children=base + tree), ["U1"] + v2 + v1, []))
    return out


# --------------------------------------------------------------------------------------------------
# several choices without a name (and items that share a name / title) with different target visibility
# --------------------------------------------------------------------------------------------------

SLOT_VIS = ("plain", "dep_chipa", "dep_chipb", "dep_user", "in_menu_chipa", "in_menu_chipb", "in_if_chipa", "in_if_chipb")
SLOT_VIS3 = ("plain", "dep_chipa", "dep_chipb", "dep_user")


def _choice_slot(idx: int, vis: str, named: bool) -> List[Any]:
    tag = f"Q{idx}"
    members = [Cfg(f"{tag}_A", "bool", prompt=f"member a of choice {idx}", help=f"Help of {tag}_A."), Cfg(f"{tag}_B", "bool", prompt=f"member b of choice {idx}")]
    ch = Choice(name=f"{tag}_CH" if named else None, prompt=f"choice {idx} ({vis})", defaults=[(f"{tag}_A", None)], children=members)
    after = Cfg(f"{tag}_REF", "bool", prompt=f"refers to a member of choice {idx}", defaults=[(L("y"), S(f"{tag}_B"))])
    if vis == "plain":
        return [ch, after]
    if vis in ("dep_chipa", "dep_chipb"):
        ch.depends = [S("IDF_TARGET_CHIPA" if vis.endswith("a") else "IDF_TARGET_CHIPB")]
        return [ch, after]
    if vis == "dep_user":
        ch.depends = [S("U1")]
        return [ch, after]
    if vis in ("in_menu_chipa", "in_menu_chipb"):
        return [Menu(title=f"Menu of choice {idx}", depends=[S("IDF_TARGET_CHIPA" if vis.endswith("a") else "IDF_TARGET_CHIPB")], children=[ch]), after]
    if vis in ("in_if_chipa", "in_if_chipb"):
        return [If(cond=S("IDF_TARGET_CHIPA" if vis.endswith("a") else "IDF_TARGET_CHIPB"), children=[ch]), after]
    raise ValueError(vis)


def visibility_programs() -> List[Tuple[str, str, Program, List[str], List[str]]]:
    """Two and three choices in one tree, each with its own target visibility, unnamed or named in every pattern that has at
    least one unnamed choice; plus a menu whose title equals the name of an option of different target visibility."""
    names = closure(["U1"])
    out = []
    for n, alphabet in ((2, SLOT_VIS), (3, SLOT_VIS3)):
        for vis in itertools.product(alphabet, repeat=n):
            for named in itertools.product((False, True), repeat=n):
                if all(named):
                    continue
                kids: List[Any] = []
                for i, (v, nm) in enumerate(zip(vis, named)):
                    kids += _choice_slot(i + 1, v, nm)
                desc = " ".join(f"{'named' if nm else 'unnamed'}:{v}" for v, nm in zip(vis, named))
                out.append(("choices_without_name", desc, Program(title="Main menu", children=base_list(names) + kids), ["U1"], []))
    for opt_dep, order in itertools.product(("IDF_TARGET_CHIPA", "IDF_TARGET_CHIPB", "U1"), ("option_first", "menu_first")):
        opt = Cfg("ZED", "bool", prompt="option whose name is also a menu title", depends=[S(opt_dep)])
        menu = Menu(title="ZED", children=[Cfg("Z_IN", "bool", prompt="option in the menu titled like an option"), Menu(title="Sub", children=[Cfg("Z_IN2", "int", prompt="deeper", defaults=[(L("1"), None)])])])
        kids = [opt, menu] if order == "option_first" else [menu, opt]
        out.append(("menu_titled_like_option", f"option depends on {opt_dep}, {order}", Program(title="Main menu", children=base_list(names) + kids), ["U1"], []))
    return out


def items(tier: str, seed: int):
    out = []
    for name, prog, variables, renames in fixed_programs():
        out.append({"group": name, "estr": "-", "files": kgen.render(prog), "vars": variables, "renames": renames})
    for group, desc, prog, variables, renames in visibility_programs():
        out.append({"group": group, "estr": desc, "files": kgen.render(prog), "vars": variables, "renames": renames})
    for group, desc, prog, variables, renames in special_programs(tier):
        out.append({"group": group, "estr": desc, "files": kgen.render(prog), "vars": variables, "renames": renames})
    quick_set = set(expressions("quick"))
    for E in expressions(tier):
        for g in GROUPS:
            if g == "reverse" and E not in quick_set:
                continue  # the reverse group ranges over the quick-tier expressions in both tiers (see RULE)
            prog, variables, renames = build_program(g, E)
            out.append({"group": g, "estr": kgen.expr_str(E), "files": kgen.render(prog), "vars": variables, "renames": renames})
    return out


# --------------------------------------------------------------------------------------------------
# driver
# --------------------------------------------------------------------------------------------------

_gd = None
_kg = None


def mods():
    global _gd, _kg
    if _gd is None:
        import esp_idf_kconfig.gen_kconfig_doc as gd
        import kconfgen.core as kg

        _gd, _kg = gd, kg
    return _gd, _kg


class _Env:
    def __init__(self, target: str):
        self.target = target

    def __enter__(self):
        self.saved = os.environ.get("IDF_TARGET")
        os.environ["IDF_TARGET"] = self.target

    def __exit__(self, *a):
        if self.saved is None:
            os.environ.pop("IDF_TARGET", None)
        else:
            os.environ["IDF_TARGET"] = self.saved


def site_of(exc: BaseException) -> str:
    tb = traceback.extract_tb(exc.__traceback__)
    for fr in reversed(tb):
        if "/mck/" not in fr.filename:
            return f"{os.path.basename(fr.filename)}:{fr.name}"
    return "?"


class Generated:
    """One run of the documentation generator with _prepare_cond recorded."""

    def __init__(self, item: dict, target: str):
        gd, kg = mods()
        self.inst = impl.Inst(item["files"], env={"IDF_TARGET": target}, renames=["\n".join(item["renames"]) + "\n"] if item["renames"] else None)
        self.k = self.inst.k
        self.records: List[Tuple[Any, Any, Any, str]] = []
        self.expected: List[Any] = []  # per record: the dependencies the row may be read modulo (see expected_deps)
        self.memo: Dict[Any, Any] = {}
        self.visibility = None
        self.current: List[Any] = [None]
        orig_prepare, orig_write_docs, orig_item = gd._prepare_cond, gd.write_docs, gd.write_menu_item
        me = self

        def prepare(cond, visibility, kconfig, direct_deps=None):
            shown = orig_prepare(cond, visibility, kconfig, direct_deps=direct_deps)
            where = me.where(cond)
            me.records.append((cond, direct_deps, shown, where))
            me.expected.append(me.expected_deps(cond, direct_deps, where))
            return shown

        def write_docs(kconfig, visibility, filename):
            me.visibility = visibility
            return orig_write_docs(kconfig, visibility, filename)

        def write_menu_item(f, node, visibility, kconfig, reverse_deps):
            me.current[0] = node
            return orig_item(f, node, visibility, kconfig, reverse_deps)

        out = impl.tmpfile("docs.rst")
        gd._prepare_cond, gd.write_docs, gd.write_menu_item = prepare, write_docs, write_menu_item
        try:
            with _Env(target):
                kg.write_docs(self.k, out, write_deprecated=True)
        finally:
            gd._prepare_cond, gd.write_docs, gd.write_menu_item = orig_prepare, orig_write_docs, orig_item
        with open(out) as f:
            self.text = f.read()
        os.unlink(out)

    def expected_deps(self, cond, passed, where: str):
        """The dependencies a shown row may be read modulo, decided by WHERE the row is printed and not by what the generator
        stripped: a row of the option's own section (range / default / forcefully enables / sets) is read next to that option's
        'Symbol can be set when', a row 'forcefully enabled by SRC' / 'set by SRC to v' is a statement about SRC and is read
        modulo SRC's dependencies (select / set do not look at the dependencies of their target).  None: nothing."""
        item = getattr(self.current[0], "item", None)
        if passed is None or item is None:
            return None
        # `where` names the row by object identity of its condition, which is ambiguous when two rows share one expression
        # object (an unconditional row's condition IS the dependency symbol): collect every reading and accept what the
        # generator stripped if it is one of them
        own = any(c is cond for _l, _h, c in getattr(item, "ranges", ())) or any(c is cond for _v, c in getattr(item, "defaults", ())) \
            or any(c is cond for _t, c in getattr(item, "selects", ())) or any(c is cond for _t, _v, c in getattr(item, "sets", ()))
        forced = []
        for src in self.k.unique_defined_syms:
            if any(t is item and c is cond for t, c in src.selects) or any(t is item and c is cond for t, _v, c in src.sets):
                forced.append(src.direct_dep)
        cands = forced + ([item.direct_dep] if own and hasattr(item, "direct_dep") else [])
        for d in cands:
            if d is passed or d == passed:
                return d
        return cands[0] if cands else passed

    def where(self, cond) -> str:
        node = self.current[0]
        item = getattr(node, "item", None)
        name = getattr(item, "name", None) or "?"
        kind = "?"
        if node is not None and node.prompt and cond is node.prompt[1]:
            kind = "can_be_set_when"
        elif hasattr(item, "ranges") and any(c is cond for _l, _h, c in item.ranges):
            kind = "range"
        elif hasattr(item, "defaults") and any(c is cond for _v, c in item.defaults):
            kind = "default"
        elif hasattr(item, "selects") and any(c is cond for _t, c in item.selects):
            kind = "select"
        elif hasattr(item, "sets") and any(c is cond for _t, _v, c in item.sets):
            kind = "set"
        else:
            kind = "forced_by"
        return f"{kind}@{name}"


ANCHOR_RE = re.compile(r"^\s*\.\. _([^:\n]+):\s*$", re.M)
REF_RE = re.compile(r":ref:`([^`]*)`")


def anchors_and_refs(text: str) -> Tuple[List[str], List[str]]:
    anchors = ANCHOR_RE.findall(text)
    refs = []
    for body in REF_RE.findall(text):
        m = re.match(r"^.*<([^<>]+)>\s*$", body, re.S)
        refs.append(m.group(1) if m else body)
    return anchors, refs


def special_prompt_kind(k, name: str) -> str:
    """'' unless the option `name` (or the choice it is a member of) carries the name of an excluded MENU as its prompt:
    then 'menuconfig' / 'config' / 'choice' / 'choice_of_member'."""
    gd, _ = mods()
    kl = impl.core()
    obj = k.syms.get(name)
    if obj is None or not obj.nodes:
        obj = k.named_choices.get(name)
    if obj is None:
        return ""
    for node in obj.nodes:
        if node.prompt and node.prompt[0] in gd.EXCLUDED_MENU_NAMES:
            return "choice" if isinstance(obj, kl.Choice) else "menuconfig" if node.is_menuconfig else "config"
    ch = getattr(obj, "choice", None)
    if ch is not None and any(nd.prompt and nd.prompt[0] in gd.EXCLUDED_MENU_NAMES for nd in ch.nodes):
        return "choice_of_member"
    return ""


def transplant(expr, k2):
    """The same expression over the symbols of another instance of the same program."""
    if expr is None:
        return None
    if isinstance(expr, tuple):
        return (expr[0],) + tuple(transplant(x, k2) for x in expr[1:])
    name = expr.name
    if getattr(expr, "is_constant", False):
        return k2.const_syms[name]
    kl = impl.core()
    if isinstance(expr, kl.Choice):
        return k2.named_choices[name]
    return k2.syms[name]


def leaf_kind(sym) -> str:
    name = sym.name
    if sym.is_constant:
        if name in ("y", "n"):
            return "lit_bool"
        return "lit_string"
    if name in KIND:
        return KIND[name]
    if re.fullmatch(r"-?\d+", name):
        return "lit_int"
    if re.fullmatch(r"0[xX][0-9a-fA-F]+", name):
        return "lit_hex"
    if re.fullmatch(r"-?\d+\.\d+", name):
        return "lit_float"
    if sym.nodes:
        return "choice_member" if sym.choice is not None else "option"
    return "undefined"


def op_name(op) -> str:
    kl = impl.core()
    return {kl.AND: "&&", kl.OR: "||", kl.NOT: "!", kl.EQUAL: "=", kl.UNEQUAL: "!=", kl.LESS: "<", kl.LESS_EQUAL: "<=", kl.GREATER: ">", kl.GREATER_EQUAL: ">="}[op]


def subexprs(expr) -> List[Any]:
    """post-order: operands before the operators that use them"""
    out: List[Any] = []

    def rec(e):
        if isinstance(e, tuple):
            for x in e[1:]:
                rec(x)
        if not any(e is o for o in out):
            out.append(e)

    rec(expr)
    return out


def describe(e) -> str:
    kl = impl.core()
    return kl.expr_str(e)


def assignments(variables: List[str]) -> List[Tuple[Tuple[str, str], ...]]:
    return [tuple(zip(variables, vals)) for vals in itertools.product(*[DOMAIN[v] for v in variables])]


def fresh(item: dict, target: str, assign) -> Any:
    inst = impl.Inst(item["files"], env={"IDF_TARGET": target})
    k = inst.k
    for name, val in assign:
        k.syms[name].set_value(val)
    return k


def _kinds(e) -> str:
    return ",".join(leaf_kind(x) if not isinstance(x, tuple) else "expr" for x in e[1:])


def attribute(gen: Generated, expr, worlds, depth: int = 0) -> Optional[dict]:
    key = (depth >= 3, describe(expr))
    if key not in gen.memo:
        gen.memo[key] = _attribute(gen, expr, worlds, depth)
    res = gen.memo[key]
    return dict(res) if res is not None else None


def _attribute(gen: Generated, expr, worlds, depth: int) -> Optional[dict]:
    """The smallest sub-expression of `expr` whose folding by _minimize_expr changes its value in some assignment.
    If that is a defined symbol (wrongly taken for a constant), the conditions that gate the symbol are searched in turn, so
    that a consequence of a wrong fold is attributed to that fold ('via')."""
    gd, _ = mods()
    kl = impl.core()
    k = gen.k
    for e in subexprs(expr):
        m = gd._minimize_expr(e, gen.visibility, k)
        if m is e:
            continue
        for a, k2 in worlds:
            if kl.expr_value(transplant(e, k2)) == kl.expr_value(transplant(m, k2)):
                continue
            if isinstance(e, tuple) and e[0] in (kl.AND, kl.OR, kl.NOT):
                # logic operator: what matters is what each operand was folded to, not what it is
                folded_ops = [gd._minimize_expr(x, gen.visibility, k) for x in e[1:]]
                op, operands = op_name(e[0]), ",".join("y" if f is k.y else "n" if f is k.n else "open" for f in folded_ops)
            elif isinstance(e, tuple):
                op, operands = op_name(e[0]), _kinds(e)
            else:
                op, operands = "sym", leaf_kind(e)
                if depth < 3 and e.nodes:
                    gates = [e.direct_dep, e.rev_dep] + [c for _v, c in e.defaults]
                    if e.choice is not None:
                        gates.insert(0, e.choice.direct_dep)
                    for g in gates:
                        deeper = attribute(gen, g, worlds, depth + 1)
                        if deeper is not None:
                            deeper.setdefault("via", operands)
                            return deeper
            if m is k.y or m is k.n:
                folded = m.name
            elif isinstance(m, tuple):
                folded = _kinds(m)
            else:
                folded = leaf_kind(m)
            return {"op": op, "operands": operands, "folded_to": folded, "text": f"`{describe(e)}` -> `{describe(m)}`", "assign": dict(a)}
    return None


def check_target(item: dict, target: str, r: common.Result) -> None:
    gd, kg = mods()
    kl = impl.core()
    group = item["group"]
    estr = item["estr"]
    case = {"group": group, "expr": estr, "files": item["files"], "vars": item["vars"], "renames": item["renames"], "target": target}
    r.evals += 1
    try:
        gen = Generated(item, target)
    except Exception as e:  # noqa: BLE001 -- an exception out of the generator is an observation
        if "/mck/" in site_of(e) or site_of(e) == "?":
            raise
        r.violation(
            {"kind": "exception", "exc": type(e).__name__, "site": site_of(e), "group": group},
            f"[{group}, {target}] E = `{estr}`: generator raised {type(e).__name__}: {e}",
            case,
        )
        return
    k = gen.k
    anchors, refs = anchors_and_refs(gen.text)
    aset = set(anchors)

    # (c) dangling references
    for ref in sorted(set(refs)):
        if ref not in aset:
            what = "option" if ref.startswith("CONFIG_") else "menu"
            excluded = any(re.sub(r"[^a-zA-z0-9]+", "-", t).lower() in ref for t in gd.EXCLUDED_MENU_NAMES)
            line = next((ln.strip() for ln in gen.text.splitlines() if f"`{ref}`" in ln or f"<{ref}>" in ln), "")
            ctx = "found_in" if "Found in" in line else "contains" if line.startswith("- :ref:") else "deprecated" if line.startswith("- CONFIG_") else "condition_or_value"
            sig = {"kind": "dangling_ref", "site": "gen_kconfig_doc.py:write_menu_item" if ctx != "deprecated" else "core.py:append_deprecated_doc",
                   "target_is": what, "context": ctx, "excluded_menu": excluded}
            if what == "option" and special_prompt_kind(k, ref[len("CONFIG_"):]):
                sig["target_prompt_is_excluded_menu_name"] = special_prompt_kind(k, ref[len("CONFIG_"):])
            r.violation(
                sig,
                f"[{group}, {target}] E = `{estr}`: :ref:`{ref}` has no `.. _{ref}:` in the generated text (line: {line!r})",
                case,
            )

    # prompted options and their anchors
    prompted: List[Tuple[str, Any]] = []
    for s in k.unique_defined_syms:
        if any(n.prompt for n in s.nodes):
            prompted.append((s.name, "sym"))
    for c in k.unique_choices:
        if c.name and any(n.prompt for n in c.nodes):
            prompted.append((c.name, "choice"))
    undocumented = [(n, kind) for n, kind in prompted if f"CONFIG_{n}" not in aset]

    assigns = assignments(item["vars"])
    changed = any((shown is not cond) for cond, _d, shown, _w in gen.records)
    witness: Dict[str, dict] = {}
    mism: Dict[int, Tuple[dict, int, int, int]] = {}
    text_mism: Dict[int, tuple] = {}
    rendered: Dict[int, str] = {}
    worlds = []
    for a in assigns:
        r.evals += 1
        k2 = fresh(item, target, a)
        worlds.append((a, k2))
        for n, kind in undocumented:
            if n in witness:
                continue
            obj = k2.syms[n] if kind == "sym" else k2.named_choices[n]
            if obj.visibility > 0:
                witness[n] = dict(a)
        for i, (cond, deps, shown, _where) in enumerate(gen.records):
            if i in mism:
                continue
            o = kl.expr_value(transplant(cond, k2))
            deps = gen.expected[i]
            d = 2 if deps is None else kl.expr_value(transplant(deps, k2))
            s = 0 if shown is None else kl.expr_value(transplant(shown, k2))
            if min(o, d) != min(s, d):
                mism[i] = (dict(a), o, d, s)
            # (b2) the TEXT the reader sees: render the shown condition with the generator's own _cond_to_doc_str, read it
            # back with the Kconfig expression grammar (Kconfig.eval_string) and compare with the condition it renders
            if shown is not None and i not in text_mism:
                txt = rendered.get(i)
                if txt is None:
                    try:
                        txt = gd._cond_to_doc_str(shown, kl.standard_sc_expr_str)
                    except Exception as e:  # noqa: BLE001
                        txt = f"<raised {type(e).__name__}>"
                    rendered[i] = txt
                if not txt.startswith("<raised"):
                    back = re.sub(r"([A-Za-z0-9_]+) is disabled", r"!\1", re.sub(r"([A-Za-z0-9_]+) is enabled", r"\1", txt))
                    try:
                        tv = k2.eval_string(back)
                    except Exception as e:  # noqa: BLE001
                        tv = f"<{type(e).__name__}>"
                    if tv != s:
                        text_mism[i] = (dict(a), txt, s, tv)

    # (a)
    for n, kind in undocumented:
        if n not in witness:
            continue
        obj = k.syms[n] if kind == "sym" else k.named_choices[n]
        # attribute to a fold inside the conditions that gate the item: its own dependencies, then those of its parents
        culprit = None
        gate_exprs = []
        for node in obj.nodes:
            p = node
            while p is not None:
                it = p.item
                if isinstance(it, (kl.Symbol, kl.Choice)):
                    gate_exprs.append(it.direct_dep)
                elif it is kl.MENU:
                    gate_exprs.append(k._make_and(p.visibility, p.dep))
                p = p.parent
        for ge in gate_exprs:
            culprit = attribute(gen, ge, worlds)
            if culprit:
                break
        where = "member" if (kind == "sym" and obj.choice is not None) else kind
        named = special_prompt_kind(k, n)
        if named:
            culprit = None
            sig = {"kind": "undocumented", "site": "gen_kconfig_doc.py:write_menu_item", "item": where, "prompt_is_excluded_menu_name": named}
            why = "; its section is skipped because the prompt of this (or the enclosing choice's) option equals an excluded MENU name"
        elif culprit:
            sig = {"kind": "undocumented", "site": "gen_kconfig_doc.py:_minimize_expr", "op": culprit["op"], "operands": culprit["operands"], "folded_to": culprit["folded_to"]}
            why = f"; the generator folds {culprit['text']} (differs for {culprit['assign']}{', reached through a ' + culprit['via'] if 'via' in culprit else ''})"
        else:
            sig = {"kind": "undocumented", "site": "gen_kconfig_doc.py:ConfigTargetVisibility._visible", "item": where, "group": group}
            why = ""
            if kind == "sym" and obj.choice is not None and obj.choice.name is None:
                sig["choice"] = "unnamed"
                why = "; it is a member of a choice without a name"
        r.violation(
            sig,
            f"[{group}, {target}] E = `{estr}`: {kind} {n} has a prompt and is visible with {witness[n]} but has no anchor `.. _CONFIG_{n}:`{why}",
            dict(case, option=n, assign=witness[n]),
        )

    # (b)
    for i, (a, o, d, s) in sorted(mism.items()):
        cond, deps, shown, where = gen.records[i]
        stripped = gd._remove_deps_from_expr(cond, deps, k.y) if deps is not None else cond
        culprit = attribute(gen, stripped, worlds)
        shown_s = "nothing (row dropped)" if shown is None else describe(shown)
        if culprit:
            sig = {"kind": "cond_mismatch", "site": "gen_kconfig_doc.py:_minimize_expr", "op": culprit["op"], "operands": culprit["operands"], "folded_to": culprit["folded_to"]}
            why = f"; the generator folds {culprit['text']}{' (reached through a ' + culprit['via'] + ')' if 'via' in culprit else ''}"
        else:
            sig = {"kind": "cond_mismatch", "site": "gen_kconfig_doc.py:_prepare_cond", "where": where.split("@")[0], "group": group, "shown": "dropped" if shown is None else "kept"}
            why = ""
        exp = gen.expected[i]
        if deps is not None and not (exp is deps or exp == deps):
            sig["stripped"] = "not_the_dependencies_of_the_option_the_row_is_about"
            why += f"; the generator stripped `{describe(deps)}` but the row is read next to `{'-' if exp is None else describe(exp)}`"
            deps = exp
        r.violation(
            sig,
            f"[{group}, {target}] E = `{estr}`: {where}: Kconfig condition `{describe(cond)}` is {'y' if o else 'n'} with {a} "
            f"(dependencies it is read modulo {'-' if deps is None else describe(deps)} = {'y' if d else 'n'}) but the documentation shows {shown_s}{why}",
            dict(case, assign=a, where=where),
        )

    # (b2)
    for i, (a, txt, sv, tv) in sorted(text_mism.items()):
        cond, deps, shown, where = gen.records[i]
        shape = re.sub(r"[A-Za-z_][A-Za-z0-9_]*|\"[^\"]*\"|0x[0-9a-fA-F]+|[0-9.]+", "x", describe(shown))
        r.violation(
            {"kind": "rendered_text_differs", "site": "gen_kconfig_doc.py:_cond_to_doc_str", "shape": shape[:60]},
            f"[{group}, {target}] E = `{estr}`: {where}: the shown condition `{describe(shown)}` is rendered as `{txt}`, which reads as "
            f"{'y' if tv == 2 else 'n' if tv == 0 else tv} with {a} while the condition is {'y' if sv else 'n'}",
            dict(case, assign=a, where=where),
        )

    if changed or undocumented or group.startswith("special_"):
        r.outcome((item["files"]["Kconfig"], target, tuple(sorted(aset)), tuple((describe(c), "-" if d is None else describe(d), "-" if s is None else describe(s)) for c, d, s, _w in gen.records)))
    if r.sample is None:
        r.sample = {"group": group, "target": target, "expr": estr, "program": item["files"]["Kconfig"], "rst_head": gen.text[:1500], "assignments": len(assigns), "conditions_recorded": len(gen.records)}


def run_item(item) -> common.Result:
    r = common.Result()
    r.programs = 1
    for t in TARGETS:
        check_target(item, t, r)
    return r


def replay(case) -> List[dict]:
    r = common.Result()
    item = {"group": case["group"], "estr": case["expr"], "files": case["files"], "vars": case["vars"], "renames": case["renames"]}
    check_target(item, case["target"], r)
    return r.viols

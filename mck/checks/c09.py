"""C09 -- cyclic definitions are rejected; accepted trees always evaluate.

Base trees: every program of C03's dependency-edge and 2-hop-chain families (acyclic by construction).
  * every base tree must load, and every observation and every output must be computable in every configuration of its
    value domain without any exception;
  * for every ordered pair (X, Y) of options of a base tree and every edge kind, the tree with the single extra reference
    "X mentions Y through <kind>" is built.  The reference dependency graph (mck/refsem.dep_graph, choices as nodes, the
    trivial member -> choice -> same member path ignored) decides: if the new tree has a cycle, Kconfig() must raise a
    KconfigError whose message says "Dependency loop" and names X and Y; if it has none, it must load and evaluate.
"""

from __future__ import annotations

import copy
import itertools
import json
from typing import Any, Dict, Iterator, List, Optional, Tuple

from .. import common, impl, kgen, refsem
from ..kgen import And, Cfg, Choice, If, L, Menu, Not, Or, Program, Rel, S
from . import c03

ID = "C09"
LEVEL = "exploration"
RULE = (
    "base trees = C03's edge-kind and chain families; for each base tree all ordered pairs (X, Y) of its options x 24 edge kinds "
    "(depends, prompt if, default value, default condition, range low/high/condition, select, imply, set source/condition/value "
    "symbol, set default x3, if, menu depends, menu visible if, choice prompt/default condition, member prompt condition) give one "
    "mutated tree each; the reference graph decides cyclic / acyclic. Acyclic trees are evaluated in every configuration of the "
    "domain. distinct_nontrivial = distinct (tree text, verdict) pairs where the reference says cyclic."
)
ASSUMPTIONS = [
    "reference dependency graph: an option depends on every option mentioned in its prompt conditions, inherited dependencies, defaults, ranges, "
    "on the sources/conditions/value symbols of select/imply/set/set default aimed at it; a member depends on its choice; a choice depends on its "
    "prompt/default conditions and on the prompt conditions of its members",
]

KINDS = (
    "depends", "prompt_if", "default_value", "default_cond", "range_low", "range_high", "range_cond", "select", "imply",
    "set_source", "set_cond", "set_value", "wset_source", "wset_cond", "wset_value", "if_block", "menu_depends", "menu_visible_if",
    "choice_prompt_cond", "choice_default_cond", "member_prompt_cond", "choice_depends", "default_value_expr", "imply_cond",
)
LITV = {"bool": "y", "int": "4", "hex": "0x4", "string": '"z"', "float": "4.5"}


def cond_on(y: Cfg) -> tuple:
    if y.type == "bool":
        return S(y.name)
    if y.type == "string":
        return Rel("!=", S(y.name), L('"zz"'))
    return Rel("!=", S(y.name), L("0"))


def find_parent(children: List[Any], target: Any, parent_list=None) -> Optional[List[Any]]:
    for ch in children:
        if ch is target:
            return children
        sub = getattr(ch, "children", None)
        if sub:
            r = find_parent(sub, target)
            if r is not None:
                return r
    return None


def find_choice_of(prog: Program, target: Cfg) -> Optional[Choice]:
    def rec(children, cur):
        for ch in children:
            if ch is target:
                return cur
            sub = getattr(ch, "children", None)
            if sub:
                r = rec(sub, ch if ch.kind == "choice" else (cur if ch.kind == "if" else None))
                if r is not None:
                    return r
        return None

    return rec(prog.children, None)


def mutate(prog: Program, xname: str, yname: str, kind: str) -> Optional[Program]:
    p = copy.deepcopy(prog)
    cfgs = kgen.configs(p)
    X = next(c for c in cfgs if c.name == xname)
    Y = next(c for c in cfgs if c.name == yname)
    cy = cond_on(Y)
    num = ("int", "hex", "float")
    chx, chy = find_choice_of(p, X), find_choice_of(p, Y)
    quirk = False
    if chx is not None and chx is chy and X is not Y:
        # a member mentioning a sibling member: implicit sub-menu quirk, the documents are silent on what the tree means
        # (DESIGN C01 exclusions) -- the reference graph is not consulted, but an ACCEPTED tree must still evaluate
        quirk = True
        if kind not in ("depends", "prompt_if", "member_prompt_cond", "if_block"):
            return None
    if chx is not None and kind in ("default_value", "default_value_expr", "default_cond", "select", "imply", "imply_cond"):
        return None  # defaults / reverse dependencies on choice members "have no meaning" (language.rst): not well-formed
    if chy is not None and kind in ("select", "imply"):
        return None
    if kind == "depends":
        X.depends.append(cy)
    elif kind == "prompt_if":
        if X.prompt is None:
            return None
        X.prompt_cond = And(X.prompt_cond, cy) if X.prompt_cond is not None else cy
    elif kind == "default_value":
        if X.type != Y.type:
            return None
        X.defaults.insert(0, (S(Y.name), None))
    elif kind == "default_value_expr":
        if X.type != "bool" or Y.type != "bool":
            return None
        X.defaults.insert(0, (Or(Not(S(Y.name)), S(Y.name)), None))
    elif kind == "default_cond":
        X.defaults.insert(0, (L(LITV[X.type]), cy))
    elif kind in ("range_low", "range_high"):
        if X.type not in num or X.type != Y.type:
            return None
        lo, hi = {"int": ("0", "99"), "hex": ("0x0", "0x99"), "float": ("0.0", "99.0")}[X.type]
        X.ranges.insert(0, (S(Y.name), L(hi), None) if kind == "range_low" else (L(lo), S(Y.name), None))
    elif kind == "range_cond":
        if X.type not in num:
            return None
        lo, hi = {"int": ("0", "99"), "hex": ("0x0", "0x99"), "float": ("0.0", "99.0")}[X.type]
        X.ranges.insert(0, (L(lo), L(hi), cy))
    elif kind in ("select", "imply"):
        if X.type != "bool" or Y.type != "bool" or X is Y:
            return None
        (Y.selects if kind == "select" else Y.implies).append((X.name, None))
    elif kind == "imply_cond":
        if X.type != "bool":
            return None
        p.children.append(Cfg("SRC9", "bool", prompt="src9", implies=[(X.name, cy)]))
    elif kind in ("set_source", "wset_source"):
        if X.type == "bool" or Y.type != "bool":
            return None
        (Y.sets if kind == "set_source" else Y.wsets).append((X.name, L(LITV[X.type]), None))
    elif kind in ("set_cond", "wset_cond"):
        if X.type == "bool":
            return None
        src = Cfg("SRC9", "bool", prompt="src9")
        (src.sets if kind == "set_cond" else src.wsets).append((X.name, L(LITV[X.type]), cy))
        p.children.append(src)
    elif kind in ("set_value", "wset_value"):
        if X.type != "string" or Y.type != "string":
            return None
        src = Cfg("SRC9", "bool", prompt="src9")
        (src.sets if kind == "set_value" else src.wsets).append((X.name, S(Y.name), None))
        p.children.append(src)
    elif kind in ("if_block", "menu_depends", "menu_visible_if"):
        lst = find_parent(p.children, X)
        if lst is None or find_choice_of(p, X) is not None:
            return None
        i = next(j for j, n in enumerate(lst) if n is X)
        if kind == "if_block":
            lst[i] = If(cond=cy, children=[X])
        elif kind == "menu_depends":
            lst[i] = Menu(title="wrap", depends=[cy], children=[X])
        else:
            lst[i] = Menu(title="wrap", visible_if=[cy], children=[X])
    elif kind in ("choice_prompt_cond", "choice_default_cond", "choice_depends"):
        ch = find_choice_of(p, X)
        if ch is None:
            return None
        if kind == "choice_prompt_cond":
            if ch.prompt is None:
                return None
            ch.prompt_cond = And(ch.prompt_cond, cy) if ch.prompt_cond is not None else cy
        elif kind == "choice_depends":
            ch.depends.append(cy)
        else:
            ch.defaults.insert(0, (X.name, cy))
    elif kind == "member_prompt_cond":
        ch = find_choice_of(p, X)
        if ch is None or X.prompt is None:
            return None
        X.prompt_cond = And(X.prompt_cond, cy) if X.prompt_cond is not None else cy
    else:
        raise ValueError(kind)
    p.quirk = quirk  # type: ignore[attr-defined]
    return p


def ref_graph(model: refsem.Model) -> Dict[str, set]:
    g = refsem.dep_graph(model)
    # a choice's selection depends on the visibility of its members: on whatever their prompt conditions mention
    for ci in model.choices:
        cn = f"<choice{ci.idx}>"
        for m in ci.members:
            si = model.syms[m]
            for d in si.defs:
                _add(g, model, cn, d.prompt_cond, skip=cn)
    return g


def _add(g, model, a, e, skip=None):
    if e is None:
        return
    if e[0] == "s":
        if e[1] in model.syms and model.syms[e[1]].defs:
            g.setdefault(a, set()).add(e[1])
    elif e[0] == "c":
        n = f"<choice{e[1]}>"
        if n != skip:
            g.setdefault(a, set()).add(n)
    elif e[0] == "l":
        return
    else:
        for x in e[1:]:
            _add(g, model, a, x, skip)


def find_cycle(g: Dict[str, set]) -> Optional[List[str]]:
    color: Dict[str, int] = {}
    stack: List[str] = []

    def dfs(u):
        color[u] = 1
        stack.append(u)
        for v in sorted(g.get(u, ())):
            if color.get(v, 0) == 0:
                r = dfs(v)
                if r:
                    return r
            elif color.get(v) == 1:
                return stack[stack.index(v):] + [v]
        stack.pop()
        color[u] = 2
        return None

    for n in sorted(g):
        if color.get(n, 0) == 0:
            r = dfs(n)
            if r:
                return r
    return None


def named_loop(msg: str, model: refsem.Model) -> List[str]:
    import re

    out = []
    for m in re.finditer(r"(?:^|\n)(?:\.\.\.depends on (?:the choice symbol )?|\.\.\.depends again on )?(<choice[^>]*>|[A-Za-z0-9_]+) \(defined at", msg):
        n = m.group(1)
        if n.startswith("<choice"):
            nm = n[len("<choice"):-1].strip()
            idx = 0
            for ci in model.choices:
                if ci.name and ci.name == nm:
                    idx = ci.idx
            n = f"<choice{idx}>"
        out.append(n)
    return out


def reach(g, a, b) -> bool:
    seen, todo = set(), [a]
    while todo:
        u = todo.pop()
        for v in g.get(u, ()):
            if v == b:
                return True
            if v not in seen:
                seen.add(v)
                todo.append(v)
    return False


def extra_bases() -> List[Dict[str, Any]]:
    def ch(prompt, kids, **kw):
        # named, so that the choices can be told apart in the loop message
        return Choice(name=prompt.upper(), prompt=prompt, children=kids, **kw)

    out = []
    # two choices, the second one's member already depends on a member of the first (acyclic)
    out.append({"kind": "two_choices_linked", "prog": Program(children=[
        ch("c1", [Cfg("A", "bool", prompt="a"), Cfg("B", "bool", prompt="b")]),
        ch("c2", [Cfg("X", "bool", prompt="x", depends=[S("B")]), Cfg("Y", "bool", prompt="y")]),
    ]), "setters": {}})
    out.append({"kind": "two_choices_linked_via_option", "prog": Program(children=[
        ch("c1", [Cfg("A", "bool", prompt="a"), Cfg("B", "bool", prompt="b")]),
        Cfg("MID", "int", prompt="mid", defaults=[(L("1"), S("B")), (L("2"), None)]),
        ch("c2", [Cfg("X", "bool", prompt="x", prompt_cond=Rel("=", S("MID"), L("1"))), Cfg("Y", "bool", prompt="y")]),
        Cfg("OUT", "bool", prompt="out", defaults=[(S("Y"), None)]),
    ]), "setters": {}})
    out.append({"kind": "three_choices_chain", "prog": Program(children=[
        ch("c1", [Cfg("A", "bool", prompt="a"), Cfg("B", "bool", prompt="b")]),
        ch("c2", [Cfg("X", "bool", prompt="x", depends=[S("B")]), Cfg("Y", "bool", prompt="y")]),
        ch("c3", [Cfg("P", "bool", prompt="p", depends=[S("Y")]), Cfg("Q", "bool", prompt="q")]),
    ]), "setters": {}})
    out.append({"kind": "choice_in_menu_dep", "prog": Program(children=[
        Cfg("G", "bool", prompt="g"),
        Menu(title="m", depends=[S("G")], children=[ch("c1", [Cfg("A", "bool", prompt="a"), Cfg("B", "bool", prompt="b")])]),
        Cfg("T", "string", prompt="t", defaults=[(L('"a"'), S("A")), (L('"b"'), None)]),
    ]), "setters": {}})
    # a range bound taken from an option that has no value in some configurations (no default, unavailable unless ADV):
    # the bound then counts as 0; the tree is acyclic and has to evaluate whatever ADV / LIMIT / TOP / FLOOR are
    out.append({"kind": "range_bound_without_value", "prog": Program(children=[
        Cfg("ADV", "bool", prompt="adv"),
        Cfg("LIMIT", "int", prompt="limit", depends=[S("ADV")]),
        Cfg("TOP", "hex", prompt="top", depends=[S("ADV")]),
        Cfg("FLOOR", "int", prompt="floor", depends=[S("ADV")]),
        Cfg("COUNT", "int", prompt="count", ranges=[(L("1"), S("LIMIT"), None)], defaults=[(L("8"), None)]),
        Cfg("ADDR", "hex", prompt="addr", ranges=[(L("0x10"), S("TOP"), None)], defaults=[(L("0x20"), None)]),
        Cfg("DEPTH", "int", prompt="depth", ranges=[(S("FLOOR"), L("100"), None)], defaults=[(L("5"), None)]),
    ]), "setters": {}})
    out.append({"kind": "float_range_bound_without_value", "prog": Program(children=[
        Cfg("ADV", "bool", prompt="adv"),
        Cfg("FTOP", "float", prompt="ftop", depends=[S("ADV")]),
        Cfg("RATIO", "float", prompt="ratio", ranges=[(L("0.5"), S("FTOP"), None)], defaults=[(L("1.5"), None)]),
    ]), "setters": {}})
    return out


def all_bases(tier: str) -> List[Dict[str, Any]]:
    return list(c03.all_programs(tier)) + extra_bases()


def items(tier: str, seed: int):
    out = []
    for p in all_bases(tier):
        out.append({"base": p["kind"], "prog": p["prog"], "setters": p["setters"]})
    return out


DOM = {"bool": [None, "n", "y"], "int": [None, "0", "7"], "hex": [None, "0x5", "1f"], "string": [None, "", "v1"], "float": [None, "0.5", "5"]}


def evaluate_everywhere(files, prog: Program, r: common.Result, label: str, case: dict, sig_extra: dict) -> None:
    model = refsem.build(prog)
    names = [n for n in model.order if any(d.prompt is not None for d in model.syms[n].defs)]
    doms = [DOM[model.syms[n].type] for n in names]
    if len(names) > 5:
        names, doms = names[:5], doms[:5]
    import kconfgen.core as kg

    for assign in itertools.product(*doms):
        r.evals += 1
        try:
            inst = impl.Inst(files)
            for n, v in zip(names, assign):
                if v is not None:
                    inst.k.syms[n].set_value(v)
            inst.obs()
            inst.choice_obs()
            inst.config_text()
            inst.header_text()
            inst.min_text()
            kg.get_json_values(inst.k)
        except RecursionError as e:
            r.violation({"kind": "accepted_tree_recursion", **sig_extra}, f"{label} accepted, but evaluating with {dict(zip(names, assign))} hit unbounded recursion", dict(case, assign=list(assign), names=names))
            return
        except Exception as e:  # noqa: BLE001
            import traceback

            tb = traceback.extract_tb(e.__traceback__)
            site = next((f"{__import__('os').path.basename(fr.filename)}:{fr.name}" for fr in reversed(tb) if "/mck/" not in fr.filename), "?")
            r.violation({"kind": "accepted_tree_raises", "exc": type(e).__name__, "site": site, **sig_extra}, f"{label} accepted, but evaluating with {dict(zip(names, assign))} raised {type(e).__name__}: {e}", dict(case, assign=list(assign), names=names))
            return


def check_tree(prog: Program, label: str, r: common.Result, mut: Optional[Tuple[str, str, str]], base: str) -> None:
    files = kgen.render(prog)
    model = refsem.build(prog)
    g = ref_graph(model)
    cyc = find_cycle(g)
    case = {"base": base, "mutation": list(mut) if mut else None, "files": files, "program": files["Kconfig"]}
    c = impl.core()
    r.evals += 1
    kindsig = {"edge": mut[2] if mut else "base"}
    try:
        inst = impl.Inst(files)
        err = None
    except c.KconfigError as e:
        err = e
        inst = None
    except RecursionError as e:
        r.violation({"kind": "load_recursion", **kindsig}, f"{label} Kconfig() hit unbounded recursion", case)
        return
    except Exception as e:  # noqa: BLE001
        r.violation({"kind": "load_raises_other", "exc": type(e).__name__, **kindsig}, f"{label} Kconfig() raised {type(e).__name__}: {e}", case)
        return
    if getattr(prog, "quirk", False):
        r.count("sibling_member_trees(reference not consulted)")
        if err is None:
            evaluate_everywhere(files, prog, r, label, case, dict(kindsig, sibling_member=True))
        elif "ependency loop" not in str(err):
            r.violation({"kind": "rejected_with_other_error", **kindsig, "sibling_member": True}, f"{label} rejected with: {str(err)[:200]}", case)
        return
    if cyc is not None:
        r.outcome((files["Kconfig"], "cyclic"))
        r.count("cyclic_trees")
        if err is None:
            # accepted although the reference graph has a cycle: does it at least evaluate?  (reported as its own class)
            r.violation({"kind": "cycle_accepted", **kindsig, "via_choice": any(n.startswith("<choice") for n in cyc)}, f"{label} has the dependency cycle {' -> '.join(cyc)} but was accepted", case)
            return
        msg = str(err)
        if "ependency loop" not in msg:
            r.violation({"kind": "cycle_rejected_with_other_error", **kindsig}, f"{label} cyclic ({' -> '.join(cyc)}) but error is: {msg[:200]}", case)
            return
        # the error must NAME A LOOP: the items it lists, in order, must form a cycle of the reference graph
        loop = named_loop(msg, model)
        # for naming purposes a choice may be said to depend on a member (the implementation walks choice -> sibling
        # member); only the trivial member -> choice -> same member hop is not a loop
        g2 = {k: set(v) for k, v in g.items()}
        for ci in model.choices:
            g2.setdefault(f"<choice{ci.idx}>", set()).update(ci.members)
        trivial = any(a == c_ and b.startswith("<choice") and a not in g.get(b, ()) for a, b, c_ in zip(loop, loop[1:], loop[2:]))
        ok = len(loop) >= 2 and loop[0] == loop[-1] and not trivial and (
            all(b in g2.get(a, ()) for a, b in zip(loop, loop[1:])) or all(a in g2.get(b, ()) for a, b in zip(loop, loop[1:]))
        )
        if not ok:
            r.violation({"kind": "named_loop_is_not_a_loop", **kindsig}, f"{label} error names {' -> '.join(loop)}, which is not a cycle of the reference graph {sorted((k, sorted(v)) for k, v in g.items())}", case)
    else:
        r.count("acyclic_trees")
        if err is not None:
            r.violation({"kind": "acyclic_rejected", **kindsig}, f"{label} has no dependency cycle in the reference graph but was rejected: {str(err)[:300]}", case)
            return
        evaluate_everywhere(files, prog, r, label, case, kindsig)


ENV_VARIANTS = ({"KCONFIG_WARN_UNDEF": "y"}, {"KCONFIG_STRICT": "y"})


def check_env_variant(prog: Program, label: str, r: common.Result, mut, base: str) -> None:
    """the same tree loaded with the optional undefined-symbol diagnostics switched on (KCONFIG_WARN_UNDEF / KCONFIG_STRICT)
    and with one reference to an undefined name, so that the diagnostic pass really walks the tree before the loop check:
    the verdict (rejected with a dependency-loop error / accepted and evaluable) must be the one of the plain load"""
    import copy

    p2 = copy.deepcopy(prog)
    p2.children.append(Cfg("UREF", "bool", defaults=[(L("y"), S("UNDEFINED_NAME_X"))]))
    files = kgen.render(p2)
    c = impl.core()

    def verdict(env):
        try:
            inst = impl.Inst(files, env=env)
        except c.KconfigError as e:
            return "loop" if "ependency loop" in str(e) else "other_error:" + str(e)[:80]
        except RecursionError:
            return "load_recursion"
        try:
            inst.obs()
            inst.config_text()
        except RecursionError:
            return "accepted_then_recursion"
        except Exception as e:  # noqa: BLE001
            return f"accepted_then_{type(e).__name__}"
        return "accepted"

    plain = verdict(None)
    for env in ENV_VARIANTS:
        r.evals += 1
        v = verdict(env)
        if v != plain:
            r.violation({"kind": "verdict_depends_on_diagnostics_env", "env": sorted(env)[0], "plain": plain.split(":")[0], "with_env": v.split(":")[0], "edge": mut[2] if mut else "base"},
                        f"{label} plain load: {plain}; with {env}: {v}", {"base": base, "mutation": list(mut) if mut else None, "files": files, "program": files["Kconfig"], "env": env})


def run_item(item) -> common.Result:
    r = common.Result()
    r.programs = 1
    prog = item["prog"]
    base = item["base"]
    check_tree(prog, f"[base {base}]", r, None, base)
    check_env_variant(prog, f"[base {base}]", r, None, base)
    names = []
    for cfg in kgen.configs(prog):
        if cfg.name not in names:
            names.append(cfg.name)
    n_mut = 0
    for x, y in itertools.product(names, repeat=2):
        for kind in KINDS:
            try:
                p2 = mutate(prog, x, y, kind)
            except StopIteration:
                p2 = None
            if p2 is None:
                continue
            n_mut += 1
            r.programs += 1
            check_tree(p2, f"[{base} + {x} mentions {y} via {kind}]", r, (x, y, kind), base)
            if not getattr(p2, "quirk", False):
                check_env_variant(p2, f"[{base} + {x} mentions {y} via {kind}]", r, (x, y, kind), base)
    r.sample = {"base": base, "program": kgen.text(prog), "mutated_trees": n_mut}
    return r


def replay(case) -> List[dict]:
    for p in all_bases("thorough"):
        if p["kind"] == case["base"]:
            prog = p["prog"]
            if case["mutation"]:
                x, y, kind = case["mutation"]
                prog = mutate(prog, x, y, kind)
            r = common.Result()
            if case.get("env"):
                check_env_variant(prog, f"[replay {case['base']} {case['mutation']}]", r, tuple(case["mutation"]) if case["mutation"] else None, case["base"])
                return r.viols
            check_tree(prog, f"[replay {case['base']} {case['mutation']}]", r, tuple(case["mutation"]) if case["mutation"] else None, case["base"])
            return r.viols
    raise SystemExit("replay: base program not found")

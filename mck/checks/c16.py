"""C16 -- menuconfig never drops unsaved edits and knows when it is clean.

Explicit-state BFS over compound UI actions executed by the REAL glue code of MenuConfigApp (mck/headless.py); a state is
the action history, replayed on a fresh session (fresh Kconfig, fresh sdkconfig file) every time.

Value dimension: besides ordinary values, every type is exercised with its falsy-looking value -- strings with the
empty string (Kconfig `default ""`, the user clears the text in the input dialog, initial / loaded files carrying
`CONFIG_X=""`), int 0, hex 0x0 (also typed as "0"), float 0.0, bool n -- as default, as typed value, as value held by an
option that gets hidden, and as content of the initial sdkconfig and of the files offered to the Load dialog (trees
`empty_strings`, `zero_numbers`; the empty string is also in the typed alphabet of every other tree with a string
option, the numeric zeros in the typed alphabets of all trees in the thorough tier).

Choice-member dimension: besides a choice of unconditional members (`choice_select`), tree `choice_member_deps` has a choice
whose members carry their own conditions (one member `depends on` a bool, one has a prompt conditional on another bool), so
the member the user picked can be hidden and shown again while the choice stays visible.  The explored alphabets contain
select-member (Space: select and leave, y: select and stay), toggle-the-dependency, reset (member / choice / dependency),
save, quit+save and load; the initial and loadable files carry a visible non-default pick, a pick of the conditional-prompt
member, and a pick that is hidden when the file is read.

Oracles, in every reached state:
  (1) needs_save() == False  =>  bytes of the sdkconfig file == what `s` would write now
      (Kconfig.write_config with the header exactly as MenuConfigApp._do_save builds it)
  (2) right after a successful save (`s`, or `q` answered `y`): needs_save() == False
  (3) right after the initial load of a file the tool itself wrote: needs_save() == False
  (4) no action raises
"""

from __future__ import annotations

import os
from typing import Any, Dict, List, Optional, Tuple

from .. import common, explore, headless, impl, kgen
from ..kgen import Cfg, Choice, Comment, If, L, Menu, Not, Program, S

ID = "C16"
LEVEL = "model_checking"
RULE = (
    "explicit-state BFS per (tree, initial sdkconfig) pair over compound UI actions (row i x Enter/Space/y/n/r[+confirm]/"
    "typed value; leave; show-all; jump-to(node); load file[+confirm]; save; quit+answer) executed by the real MenuConfigApp "
    "glue on a fresh session per history; depth 4 (quick) / 5 (thorough; load/jump prefixes bounded as stated in "
    "ASSUMPTIONS); states merged on (user values, baseline fields, missing_syms, cur_menu, shown rows, highlighted row, "
    "show_all, conf_changed, exit status, file bytes). distinct_nontrivial counts distinct (pair, user state, needs_save, "
    "file bytes) reached by a non-empty history. Typed values include the empty string for every string option and (the "
    "dedicated tree zero_numbers in both tiers, all trees in the thorough tier) the zero of every numeric type; initial files include "
    'tool-written and hand-written ones carrying `=""` / `=0` / `=0x0` / `=0.0` entries. Choices: one with unconditional members, one '
    "whose members have their own `depends on` / conditional prompt (picked member hidden and re-shown by toggling another option), "
    "with initial / loadable files carrying visible, conditional and currently hidden picks."
)
ASSUMPTIONS = [
    "keys whose handler takes the same path as another offered key are left out (Enter vs Space and y/n vs Space on a plain bool, Escape vs Left "
    "inside a menu, cancelled dialogs); C17 explores them",
    "sdkconfig files carrying the kconfgen 'Deprecated options' compatibility block are not generated: _do_save never writes that "
    "block, so byte equality cannot hold for them by construction (kconfgen re-adds the block after menuconfig)",
    "quick tier: depth 4, jump-to only as the first action of a history, Load dialog offers {another tool-written file, the "
    "session's own file}; thorough tier: depth 5, jump-to among the first three actions, Load dialog additionally offers a "
    "hand-written fragment",
    "typed values per option type are a fixed small alphabet per tree (one or two ordinary values, the empty string for strings; "
    "zeros of int/hex/float in tree zero_numbers and, thorough tier only, in every tree); spellings that "
    "check_valid and set_value may judge differently (`-0`, `00`, blanks) belong to C17 and are not typed here",
    "choice members with their own conditions: one tree (choice_member_deps), bool conditions only, one member per kind of condition "
    "(`depends on`, `prompt ... if`), an explicit unconditional `default` member; a hand-edited file whose stale default HIDES an option "
    "it also lists is not generated (nothing can be lost there; same literal-reading class as the known duplicate-entries finding)",
    "the conformance replay through textual.Pilot compares cur_menu, shown rows, list rows, highlighted row, sel_node_i, show_all, "
    "conf_changed, all values, needs_save(), top screen, exit status and file bytes after every key",
]


# --------------------------------------------------------------------------------------------------
# trees
# --------------------------------------------------------------------------------------------------


def trees() -> List[Dict[str, Any]]:
    out: List[Dict[str, Any]] = []

    # K1: conditional prompts -> options holding user values become hidden
    kids = [
        Cfg("A", "bool", prompt="a", defaults=[(L("y"), None)]),
        Cfg("B", "bool", prompt="b", prompt_cond=S("A")),
        Cfg("N", "int", prompt="n", prompt_cond=S("A"), defaults=[(L("5"), None)], ranges=[(L("0"), L("9"), None)]),
        Cfg("S", "string", prompt="s", defaults=[(L('"d"'), None)]),
    ]
    out.append(
        dict(
            name="cond_prompt",
            prog=Program(children=kids),
            typed={"int": ["7", "5"], "string": ["v1", ""]},
            typed_more={"int": ["0"]},
            alt=[("B", "y"), ("N", "7"), ("A", "n")],
            alt2=[("S", "zz"), ("B", "y")],
            dup="# CONFIG_A is not set\n",
            dup_same="CONFIG_A=y\n",
            partial='CONFIG_B=y\nCONFIG_S="h"\n',
            stale=("CONFIG_N=5", "CONFIG_N=6"),
            frag="# CONFIG_A is not set\nCONFIG_N=3\n",
        )
    )

    # K2: a choice, select, a hex option depending on a member
    x = Cfg("X", "bool", prompt="x")
    x.selects.append(("Y", None))
    kids = [
        Choice(name=None, prompt="c", children=[Cfg("C1", "bool", prompt="c1"), Cfg("C2", "bool", prompt="c2"), Cfg("C3", "bool", prompt="c3")]),
        x,
        Cfg("Y", "bool", prompt="y"),
        Cfg("H", "hex", prompt="h", depends=[S("C2")], defaults=[(L("0x10"), None)]),
    ]
    out.append(
        dict(
            name="choice_select",
            prog=Program(children=kids),
            typed={"hex": ["0x1f"]},
            typed_more={"hex": ["0x0"]},
            alt=[("C2", "y"), ("H", "0x2a"), ("X", "y")],
            alt2=[("C3", "y")],  # the file loaded with [O] differs from the defaults in nothing but the choice selection (no option depends on C3)
            dup="CONFIG_C2=y\n",
            dup_same="CONFIG_C1=y\n",
            partial="CONFIG_C2=y\n",
            stale=None,
            frag="CONFIG_C2=y\nCONFIG_H=0x7\n",
        )
    )

    # K3: menu with `visible if`, menuconfig option with children
    kids = [
        Cfg("A", "bool", prompt="a"),
        Menu(title="M", visible_if=[S("A")], children=[Cfg("B", "bool", prompt="b", defaults=[(L("y"), None)]), Cfg("I", "int", prompt="i", defaults=[(L("3"), None)])]),
        Cfg("MC", "bool", prompt="mc", menuconfig=True),
        Cfg("K", "bool", prompt="k", depends=[S("MC")]),
        Cfg("LS", "string", prompt="ls", depends=[S("MC")], defaults=[(L('"v"'), None)]),
    ]
    out.append(
        dict(
            name="menu_visible_if_menuconfig",
            prog=Program(children=kids),
            typed={"int": ["4"], "string": ["w", ""]},
            typed_more={"int": ["0"]},
            alt=[("A", "y"), ("B", "n"), ("I", "8"), ("A", "n")],
            alt2=[("MC", "y"), ("K", "y")],
            dup="CONFIG_A=y\n",
            dup_same="# CONFIG_A is not set\n",
            partial="CONFIG_MC=y\nCONFIG_K=y\n",
            stale=("CONFIG_I=3", "CONFIG_I=2"),
            frag="CONFIG_A=y\nCONFIG_I=6\n",
        )
    )

    # K4: set / set default, a promptless option, float
    a = Cfg("A", "bool", prompt="a")
    a.sets.append(("N", L("7"), None))
    a.wsets.append(("S", L('"w"'), None))
    kids = [
        a,
        Cfg("N", "int", prompt="n", defaults=[(L("1"), None)]),
        Cfg("S", "string", prompt="s", defaults=[(L('"d"'), None)]),
        Cfg("P", "bool", defaults=[(L("y"), S("A"))]),
        Cfg("F", "float", prompt="f", defaults=[(L("1.5"), None)]),
    ]
    out.append(
        dict(
            name="set_promptless_float",
            prog=Program(children=kids),
            typed={"int": ["3"], "string": ["u", ""], "float": ["2.5"]},
            typed_more={"int": ["0"], "float": ["0.0"]},
            alt=[("N", "3"), ("A", "y")],
            alt2=[("F", "0.25"), ("S", "q")],
            dup="CONFIG_N=2\n",
            dup_same="CONFIG_F=1.5\n",
            partial="CONFIG_A=y\n",
            stale=("CONFIG_F=1.5", "CONFIG_F=9.5"),
            frag="CONFIG_A=y\nCONFIG_N=4\n",
        )
    )

    # K5: renamed (deprecated) option names
    kids = [
        Cfg("A", "bool", prompt="a"),
        Cfg("B", "bool", prompt="b", defaults=[(L("y"), None)]),
        Cfg("T", "int", prompt="t", depends=[S("A")], defaults=[(L("2"), None)]),
    ]
    out.append(
        dict(
            name="renamed_options",
            prog=Program(children=kids),
            renames=["CONFIG_OLD_A CONFIG_A\nCONFIG_OLD_NB !CONFIG_B\n"],
            typed={"int": ["6"]},
            typed_more={"int": ["0"]},
            alt=[("A", "y"), ("T", "6")],
            alt2=[("B", "n")],
            dup="CONFIG_A=y\n",
            dup_same="# CONFIG_A is not set\n",
            partial="CONFIG_A=y\n",
            stale=None,
            deprecated="CONFIG_OLD_A=y\nCONFIG_OLD_NB=y\n",
            frag="CONFIG_OLD_A=y\n",
        )
    )

    # K6: warning option, menu with `depends on`, comment
    kids = [
        Cfg("W", "bool", prompt="w", warning="danger"),
        Menu(title="D", depends=[S("W")], children=[Cfg("E", "bool", prompt="e"), Cfg("G", "hex", prompt="g", defaults=[(L("0x5"), None)])]),
        Comment(text="cm", depends=[S("W")]),
        Cfg("Z", "bool", prompt="z", prompt_cond=Not(S("W")), defaults=[(L("y"), None)]),
    ]
    out.append(
        dict(
            name="warning_menu_depends_comment",
            prog=Program(children=kids),
            typed={"hex": ["0x6"]},
            typed_more={"hex": ["0"]},
            alt=[("W", "y"), ("E", "y"), ("G", "0x9"), ("Z", "n")],
            alt2=[("Z", "n")],
            dup="CONFIG_W=y\n",
            dup_same="# CONFIG_W is not set\n",
            partial="CONFIG_W=y\nCONFIG_E=y\n",
            stale=("CONFIG_Z=y", "# CONFIG_Z is not set"),
            frag="CONFIG_W=y\nCONFIG_G=0x8\n",
        )
    )
    # K7: empty strings -- `default ""`, a string the user clears in the input dialog, files carrying `CONFIG_X=""`,
    #     a conditional-prompt string whose (empty) value gets hidden, a bool whose default/user value is `n`
    kids = [
        Cfg("B", "bool", prompt="b", defaults=[(L("y"), None)]),
        Cfg("E", "string", prompt="e", defaults=[(L('""'), None)]),
        Cfg("S", "string", prompt="s", defaults=[(L('"d"'), None)]),
        Cfg("T", "string", prompt="t", prompt_cond=S("B"), defaults=[(L('""'), None)]),
    ]
    out.append(
        dict(
            name="empty_strings",
            prog=Program(children=kids),
            typed={"string": ["", "v"]},
            alt=[("S", ""), ("E", "x"), ("T", ""), ("B", "n")],
            alt2=[("S", "")],
            dup='CONFIG_E="z"\n',
            dup_same='CONFIG_E=""\n',
            partial='CONFIG_S=""\n',
            stale=[('CONFIG_E=""', 'CONFIG_E="old"'), ('CONFIG_S="d"', 'CONFIG_S=""')],
            frag='CONFIG_S=""\n# CONFIG_B is not set\n',
        )
    )

    # K8: zero / `n` values of the other types -- defaults 0, 0x0, 0.0; typed 0 / 0.0 and "0" for hex (which the dialog
    #     completes to 0x0); an int that is 0 (default or typed) while its dependency is switched off
    kids = [
        Cfg("B", "bool", prompt="b", defaults=[(L("y"), None)]),
        Cfg("N", "int", prompt="n", depends=[S("B")], defaults=[(L("0"), None)]),
        Cfg("H", "hex", prompt="h", defaults=[(L("0x0"), None)]),
        Cfg("F", "float", prompt="f", defaults=[(L("0.0"), None)]),
    ]
    out.append(
        dict(
            name="zero_numbers",
            prog=Program(children=kids),
            typed={"int": ["0", "1"], "hex": ["0", "0x1"], "float": ["0.0", "0.5"]},
            alt=[("N", "1"), ("H", "0x0"), ("F", "0.5"), ("B", "n")],
            alt2=[("F", "0.0"), ("N", "0")],
            dup="CONFIG_N=1\n",
            dup_same="CONFIG_N=0\n",
            partial="CONFIG_N=0\nCONFIG_H=0x0\n",
            stale=[("CONFIG_N=0", "CONFIG_N=3"), ("CONFIG_H=0x0", "CONFIG_H=0x00")],
            frag="# CONFIG_B is not set\nCONFIG_F=0.0\n",
        )
    )
    # K9: a choice whose members carry their own conditions -- MB `depends on F`, MC's prompt is conditional on G -- so that the
    #     member the user picked can be hidden (and shown again) by toggling another option while the choice itself stays
    #     visible: the selection falls back to the default member, the pick stays recorded.  Alphabets reach select-member /
    #     toggle-the-dependency / save / reset / load in every order; initial and loadable files carry a pick that is
    #     currently hidden (`partial`), a visible non-default pick (`alt`), a pick of the conditional-prompt member (`alt2`)
    kids = [
        Cfg("F", "bool", prompt="f", defaults=[(L("y"), None)]),
        Cfg("G", "bool", prompt="g"),
        Choice(
            name="MODE",
            prompt="m",
            defaults=[("MA", None)],
            children=[Cfg("MA", "bool", prompt="ma"), Cfg("MB", "bool", prompt="mb", depends=[S("F")]), Cfg("MC", "bool", prompt="mc", prompt_cond=S("G"))],
        ),
    ]
    out.append(
        dict(
            name="choice_member_deps",
            prog=Program(children=kids),
            typed={},
            alt=[("MB", "y")],
            alt2=[("G", "y"), ("MC", "y")],
            dup="CONFIG_MB=y\n",
            dup_same="CONFIG_MA=y\n",
            partial="# CONFIG_F is not set\nCONFIG_MB=y\n",
            stale=("# CONFIG_G is not set", "CONFIG_G=y"),  # stale default that shows member MC, which the file does not mention
            frag="# CONFIG_F is not set\nCONFIG_MB=y\nCONFIG_G=y\n",
        )
    )
    return out


IDF_ENV ={"IDF_TARGET": "esp32", "IDF_VERSION": "v9.9"}


def tool_text(files: Dict[str, str], renames: Optional[List[str]], ops: List[Tuple[str, str]], env: Dict[str, str]) -> str:
    """a file the tool itself writes: fresh instance, user values, write_config with the header _do_save uses"""
    from esp_menuconfig.idf_headers import idf_sdkconfig_header

    inst = impl.Inst(files, renames=renames)
    for n, v in ops:
        if not inst.k.syms[n].set_value(v):
            raise RuntimeError(f"tool_text: {n}={v} rejected")
    saved = {k: os.environ.get(k) for k in env}
    os.environ.update(env)
    try:
        p = impl.tmpfile("tool")
        inst.k.write_config(p, header=idf_sdkconfig_header(), save_old=False, write_deprecated=False)
    finally:
        for k, v in saved.items():
            if v is None:
                os.environ.pop(k, None)
            else:
                os.environ[k] = v
    with open(p) as f:
        t = f.read()
    os.unlink(p)
    return t


def items(tier: str, seed: int):
    out = pairs(tier)
    # biggest searches first (the runner hands items out in list order)
    weight = {"cond_prompt": 0, "zero_numbers": 0, "empty_strings": 0, "choice_member_deps": 1, "choice_select": 1, "menu_visible_if_menuconfig": 2, "warning_menu_depends_comment": 3, "set_promptless_float": 4}
    out.sort(key=lambda it: weight.get(it["tree"], 9))
    return out


def pairs(tier: str):
    depth = 4 if tier == "quick" else 5
    jump_prefix = 1 if tier == "quick" else 3
    loads = ["load_tool.cfg", "@conf"] if tier == "quick" else ["load_tool.cfg", "load_frag.cfg", "@conf"]
    out = []
    for t in trees():
        files = kgen.render(t["prog"])
        ren = t.get("renames")
        tdef = tool_text(files, ren, [], {})
        talt = tool_text(files, ren, t["alt"], {})
        talt2 = tool_text(files, ren, t["alt2"], {})
        files = dict(files)
        files["load_tool.cfg"] = talt2
        files["load_frag.cfg"] = t["frag"]
        kinds: List[Tuple[str, Optional[str], Dict[str, str]]] = [
            ("absent", None, {}),
            ("tool_default", tdef, {}),
            ("tool_alt", talt, {}),
            ("hand_unknown", tdef + "CONFIG_ZZZ_UNKNOWN=y\n", {}),
            ("hand_dup", tdef + t["dup"], {}),
            ("hand_partial", t["partial"], {}),
        ]
        if tier != "quick" or t["name"] in ("cond_prompt", "choice_select", "empty_strings", "zero_numbers"):
            kinds.append(("hand_dup_same", tdef + t["dup_same"], {}))
        stale = t.get("stale") or []
        for j, (a, b) in enumerate([stale] if isinstance(stale, tuple) else stale):
            if a + "\n" not in tdef:
                raise RuntimeError(f"stale pattern {a!r} not in tool-written text of {t['name']}")
            kinds.append(("hand_stale_default" + (str(j + 1) if j else ""), tdef.replace(a + "\n", b + "\n"), {}))
        if t.get("deprecated"):
            kinds.append(("hand_deprecated", t["deprecated"], {}))
        if t["name"] == "cond_prompt":
            kinds.append(("absent+idf_header", None, dict(IDF_ENV)))
            kinds.append(("tool_default+idf_header", tool_text(files, ren, [], IDF_ENV), dict(IDF_ENV)))
            kinds.append(("tool_alt+idf_header", tool_text(files, ren, t["alt"], IDF_ENV), dict(IDF_ENV)))
        typed = {ty: list(v) for ty, v in t["typed"].items()}
        if tier != "quick":  # zero values of the numeric types in every tree
            for ty, v in (t.get("typed_more") or {}).items():
                typed[ty] = typed.get(ty, []) + [x for x in v if x not in typed.get(ty, [])]
        for kind, text, env in kinds:
            out.append(
                {
                    "tree": t["name"],
                    "sdk_kind": kind,
                    "spec": {"files": files, "sdk": text, "renames": ren, "env": env},
                    "typed": typed,
                    "loads": loads,
                    "depth": depth,
                    "jump_prefix": jump_prefix,
                }
            )
    return out


# --------------------------------------------------------------------------------------------------
# oracle
# --------------------------------------------------------------------------------------------------


def after_kind(h: tuple) -> str:
    if not h:
        return "init"
    a = h[-1]
    key = a[2] if a[0] == "row" else a[1]
    if key == "s":
        return "save"
    if key == "q":
        return "quit"
    if key == "o":
        return "load"
    if key in ("a", "left", "escape", "slash"):
        return "nav"
    if key == "r":
        return "reset"
    return "edit"


def sym_feature(st: headless.Harness, sym: Any) -> str:
    from esp_kconfiglib.core import TYPE_TO_STR

    f = [TYPE_TO_STR.get(sym.orig_type, "?")]
    if sym.choice is not None:
        f.append("member")
    if all(n.prompt is None for n in sym.nodes):
        f.append("promptless")
    elif sym.visibility == 0:
        f.append("hidden")
    if sym._user_value is not None:
        f.append("user")
    if getattr(sym, "_has_active_indirect_set", False):
        f.append("set")
    return ":".join(f)


def dirty_reason(st: headless.Harness) -> Tuple[str, str, str]:
    """which clause of needs_save() fires first (same order as the implementation), on which kind of option"""
    k = st.k
    if k.missing_syms:
        return "missing_syms", "-", repr(k.missing_syms[:2])
    for sym in k.unique_defined_syms:
        if sym._sdkconfig_value is None:
            if sym.config_string:
                return "not_in_file", sym_feature(st, sym), sym.name
        elif sym.str_value != sym._sdkconfig_value:
            return "value_differs", sym_feature(st, sym), f"{sym.name}: now {sym.str_value!r}, file baseline {sym._sdkconfig_value!r}"
        elif not sym._loaded_as_default and sym.has_active_default_value():
            return "file_user_now_default", sym_feature(st, sym), sym.name
        elif sym._loaded_as_default and not sym.has_active_default_value():
            return "file_default_now_user", sym_feature(st, sym), sym.name
    # needs_save() is True although no clause of the predicate holds: name the options whose recorded file value looks
    # falsy (empty string, zero) -- the usual way a truthiness test goes wrong
    odd = [sym for sym in k.unique_defined_syms if sym._sdkconfig_value is not None and sym._sdkconfig_value in ("", "0", "0x0", "0.0")]
    if odd:
        feats = sorted({sym_feature(st, sym).split(":")[0] + ("=empty" if sym._sdkconfig_value == "" else "=zero") for sym in odd})
        return "unexplained", "+".join(feats), ", ".join(f"{sym.name} (file baseline {sym._sdkconfig_value!r})" for sym in odd[:3])
    return "unexplained", "-", "-"


def loses_edit(item: Dict[str, Any], disk: Optional[str], expected: str) -> Any:
    """True iff the file on disk denotes another configuration than the session holds (re-loading it in a fresh tool
    instance and writing it out does not give `expected`)"""
    if disk is None:
        return "no_file"
    spec = item["spec"]
    inst = impl.Inst(spec["files"], renames=spec.get("renames") or None)
    p = impl.put_text(disk, "disk")
    try:
        inst.k.load_config(p)
    finally:
        os.unlink(p)
    saved = {k: os.environ.get(k) for k in (spec.get("env") or {})}
    os.environ.update(spec.get("env") or {})
    try:
        from esp_menuconfig.idf_headers import idf_sdkconfig_header

        q = impl.tmpfile("re")
        inst.k.write_config(q, header=idf_sdkconfig_header(), save_old=False, write_deprecated=False)
    finally:
        for k, v in saved.items():
            if v is None:
                os.environ.pop(k, None)
            else:
                os.environ[k] = v
    with open(q, newline="") as f:
        t = f.read()
    os.unlink(q)
    return t != expected


def first_diff(a: Optional[str], b: str) -> str:
    if a is None:
        return "file absent"
    la, lb = a.splitlines(), b.splitlines()
    for i in range(max(len(la), len(lb))):
        x = la[i] if i < len(la) else "<eof>"
        y = lb[i] if i < len(lb) else "<eof>"
        if x != y:
            return f"line {i + 1}: on disk {x!r}, save would write {y!r}"
    return "differs in line endings"


def save_succeeded(h: tuple, st: headless.Harness) -> bool:
    if not h:
        return False
    a = h[-1]
    key = a[2] if a[0] == "row" else a[1]
    ok = ("Configuration saved to", "No change to configuration in")
    if key == "s":
        return bool(st.app.notes) and st.app.notes[-1][0] == "information" and st.app.notes[-1][1].startswith(ok)
    if key == "q":
        return st.app.exited and isinstance(st.app.return_value, str) and st.app.return_value.startswith(ok)
    return False


def mk_case(item: Dict[str, Any], h: tuple) -> Dict[str, Any]:
    return {
        "tree": item["tree"],
        "sdk_kind": item["sdk_kind"],
        "program": item["spec"]["files"]["Kconfig"],
        "sdkconfig": item["spec"]["sdk"],
        "history": [list(a) for a in h],
        "item": {k: v for k, v in item.items() if k != "prefix"},
    }


def oracle(item: Dict[str, Any], h: tuple, st: headless.Harness, r: common.Result) -> None:
    r.evals += 1
    if st.empty:
        return
    ns = st.state.needs_save()
    disk = st.file_text()
    where = f"[{item['tree']} / {item['sdk_kind']}] after {headless.fmt_history(h) or 'start'}"
    if not ns:
        exp = st.expected_text()
        if disk != exp:
            le = loses_edit(item, disk, exp)
            r.violation(
                # a file that denotes the same configuration (nothing can be lost) is one class per kind of initial file
                {"kind": "clean_but_file_differs", "loses_edit": le, "sdk": item["sdk_kind"].split("+")[0], "after": after_kind(h) if le else "-"},
                f"{where}: needs_save() is False but the file differs from what saving would write ({first_diff(disk, exp)})",
                mk_case(item, h),
            )
    if save_succeeded(h, st):
        r.count("saves")
        if ns:
            clause, feat, detail = dirty_reason(st)
            r.violation(
                {"kind": "dirty_right_after_save", "clause": clause, "option": feat},
                f"{where}: needs_save() is True right after a successful save ({clause}: {detail})",
                mk_case(item, h),
            )
        exp = st.expected_text()
        if disk != exp:
            r.violation(
                {"kind": "saved_file_is_not_a_fixpoint", "after": after_kind(h)},
                f"{where}: after save + reload the file is not what saving again would write ({first_diff(disk, exp)})",
                mk_case(item, h),
            )
    if not h and item["sdk_kind"].startswith("tool_"):
        r.count("tool_written_loads")
        if ns:
            clause, feat, detail = dirty_reason(st)
            r.violation(
                {"kind": "dirty_after_loading_tool_written_file", "clause": clause, "option": feat, "sdk": item["sdk_kind"].split("+")[0]},
                f"{where}: needs_save() is True right after loading a file the tool wrote ({clause}: {detail})",
                mk_case(item, h),
            )
    if h:
        r.outcome((item["tree"], item["sdk_kind"], st.user_key(), ns, common.h64(disk or "\0")))


def raised_violation(item: Dict[str, Any], h: tuple, e: headless.Raised, r: common.Result) -> None:
    sig = {"kind": "exception", "exc": e.exc_type, "site": e.site, "action": headless.action_family(e.action, e.ctx.get("target"))}
    sig["target"] = e.ctx.get("target") if sig["action"] != "leave" else None
    sig["menu"] = e.ctx.get("menu")
    r.violation(sig, f"[{item['tree']} / {item['sdk_kind']}] {headless.fmt_history(h)}: {e}", mk_case(item, h))


def enabled_for(item: Dict[str, Any], h: tuple, st: headless.Harness) -> List[tuple]:
    return headless.enumerate_actions(st, item["typed"], item["loads"], full=False, jumps=len(h) < item["jump_prefix"])


def explore_item(item: Dict[str, Any], r: common.Result, only_history: Any = None):
    spec = item["spec"]
    P, depth = (), item["depth"]

    def build(h):
        return headless.replay(spec, P + h)

    def enabled(h, st):
        return enabled_for(item, P + h, st)

    def canon(st):
        return st.canon()

    def check(h, st):
        oracle(item, P + h, st, r)

    def on_raise(h, e):
        if not isinstance(e, headless.Raised):
            raise e
        r.evals += 1
        raised_violation(item, P + h, e, r)

    try:
        if only_history is not None:
            h = headless.norm_history(only_history)
            try:
                oracle(item, h, headless.replay(spec, h), r)
            except headless.Raised as e:
                raised_violation(item, h, e, r)
            return None
        try:
            st = explore.bfs(build, enabled, canon, check, depth, on_raise=on_raise)
        except headless.Raised as e:  # the initial state itself
            if P:
                return None  # reported by the root item of the pair
            raised_violation(item, (), e, r)
            return None
        r.states += st.states
        r.transitions += st.transitions
        return st
    finally:
        headless.close_all()


def run_item(item) -> common.Result:
    r = common.Result()
    r.programs = 1
    st = explore_item(item, r)
    r.sample = {
        "tree": item["tree"],
        "initial_sdkconfig": item["sdk_kind"],
        "program": item["spec"]["files"]["Kconfig"],
        "states": st.states if st else 0,
        "transitions": st.transitions if st else 0,
        "max_depth": st.max_depth if st else 0,
    }
    return r


def replay(case) -> List[dict]:
    if case.get("conformance"):
        _n, viols = conformance_run(__name__, [case["item"]], 1, 0, 0, False, fixed=headless.norm_history(case["history"]))
        return viols
    r = common.Result()
    explore_item(case["item"], r, only_history=case["history"])
    return r.viols


# --------------------------------------------------------------------------------------------------
# conformance: explored traces through textual's Pilot on the real MenuConfigApp
# --------------------------------------------------------------------------------------------------


def pick_trace(item: Dict[str, Any], salt: Any, length: int, full: bool = False) -> Optional[tuple]:
    """deterministic walk through the explored space: at every step the first action (in an order derived from `salt`)
    that changes the canonical state; quitting only as the last step"""
    spec = item["spec"]
    h: tuple = ()
    try:
        st = headless.replay(spec, h)
        if st.empty:
            return None
        for step in range(length):
            acts = headless.enumerate_actions(st, item["typed"], item["loads"], full=full, jumps=True, info=full)
            acts = [a for a in acts if (a[0] == "row" or a[1] != "q") or step == length - 1]
            if not acts:
                break
            acts.sort(key=lambda a: common.h64((salt, step, repr(a))))
            cur = st.canon()
            chosen = None
            for a in acts[:10]:
                try:
                    s2 = headless.replay(spec, h + (a,))
                except headless.Raised:
                    continue
                if chosen is None:
                    chosen = a
                if s2.canon() != cur:
                    chosen = a
                    break
            if chosen is None:
                break
            h = h + (chosen,)
            st = headless.replay(spec, h)
            if st.app.exited:
                break
    except headless.Raised:
        return h or None
    finally:
        headless.close_all()
    return h or None


def conformance_run(modname: str, its: List[Dict[str, Any]], n: int, seed: int, length: int, full: bool, fixed: Any = None):
    with headless.quiet_stderr():
        return _conformance_run(its, n, seed, length, full, fixed)


def _conformance_run(its: List[Dict[str, Any]], n: int, seed: int, length: int, full: bool, fixed: Any):
    viols: List[dict] = []
    done = 0
    if not its:
        return 0, viols
    stride = max(1, len(its) // max(1, min(n, len(its))))
    for j in range(n):
        item = its[(seed + j * stride + (j // len(its))) % len(its)]
        h = fixed if fixed is not None else pick_trace(item, (seed, j), length, full)
        if not h:
            continue
        try:
            try:
                headless.replay(item["spec"], h)
            except headless.Raised:
                continue  # reported by the search itself
            n_obs, mm = headless.pilot_replay(item["spec"], h)
        except Exception as e:  # noqa: BLE001 -- Pilot not workable / real app crashed
            viols.append(
                {
                    "sig": {"kind": "conformance_pilot_error", "exc": type(e).__name__},
                    "msg": f"[{item['tree']} / {item['sdk_kind']}] Pilot replay of {headless.fmt_history(h)} failed: {type(e).__name__}: {str(e)[:200]}",
                    "case": {"conformance": True, "history": [list(a) for a in h], "item": item},
                }
            )
            continue
        finally:
            headless.close_all()
        done += 1
        if mm is not None:
            viols.append(
                {
                    "sig": {"kind": "conformance_mismatch", "fields": "+".join(mm["fields"]), "step": mm["step"][0] + (":" + str(mm["step"][1]) if mm["step"][0] == "key" else "")},
                    "msg": f"[{item['tree']} / {item['sdk_kind']}] headless run and Pilot run of {headless.fmt_history(h)} differ after step #{mm['step_index']} {mm['step']}: "
                    f"headless {mm['headless']!r} vs real app {mm['pilot']!r}",
                    "case": {"conformance": True, "history": [list(a) for a in h], "item": item},
                }
            )
    return done, viols


def conformance(tier: str, seed: int):
    n = 5 if tier == "quick" else 100
    its = pairs(tier)
    return conformance_run(__name__, its, n, seed, 4 if tier == "quick" else 5, False)

"""C12 -- dependency sync flags every changed option, even across interrupted runs.

Fault enumeration (mck/faultfs.py).  A history is a sequence of states (tree version, configuration); after each state
`Kconfig.sync_deps(<dir>)` runs on a FRESH instance (a build = a new process).  For every history the crash-free run is
executed first (under the fault file system without injection, which enumerates the mutating operations and the cut
points of the auto.conf write of every sync), then for every sync i and EVERY crash point of it: the directory is put
back to its state before sync i, the sync runs to the crash, the same sync is rerun on a fresh instance to completion,
repeated once more, and the history is continued to its end.

Reference ("build-visible value"): the #define lines `write_autoconf()` produces for a state; an option that has no
line is absent.  changed(prev, cur) = names whose line differs (appeared / disappeared / other value) plus every
deprecated alias (own table, not the implementation's) of such a name.  "Touched" = the .cdep file's mtime left the fixed
epoch all files are forced to (os.utime, outside the interposed region) before each observed step -- no clock is read.

Oracles
  crash-free   touched .cdep set == changed set (exactly); an immediately repeated sync performs no mutating operation,
               touches nothing and leaves auto.conf's mtime / inode.
  with a crash every member of changed(last COMPLETED sync, current) was touched in the crashed run or in the rerun; the
               rerun completes and leaves the same auto.conf as the crash-free run; a further repeat touches nothing;
               the rest of the history satisfies the crash-free clause.
State merging (sound because a fresh instance's sync is a deterministic function of the on-disk state and its (tree,
configuration)): the crash points of sync i are executed once per distinct prefix h[:i+1] (by the history whose later states
are the first state of the alphabet); if the recovered on-disk state (paths + bytes) equals the crash-free state, the repeat /
continuation is the one already checked in the crash-free run of every history with that prefix, otherwise the continuation is
executed for every suffix over the alphabet.

A crash-phase finding is reported only if the crash-free run of the same history does not already show the same
(kind, file) at the same sync, so a crash-free defect is not reported once more per crash point under another name.
"""

from __future__ import annotations

import itertools
import os
import re
from typing import Any, Dict, List, Optional, Tuple

from .. import common, faultfs, impl

ID = "C12"
LEVEL = "fault_enumeration"
RULE = (
    "all histories over states = (tree version, configuration): quick 12 states (2 trees x 6 configurations) ^ 3; thorough 24 states "
    "(6 trees) ^ 3 plus 10 states ^ 4; one fresh Kconfig per sync; crash-free run of every history, then for every "
    "sync every crash point (before each mutating FS operation: mkdir per level, truncating touch, open(auto.conf,'w'); inside "
    "the auto.conf write at 0 / every line boundary / middle of last line / all-but-one byte), each on a fresh copy of the "
    "pre-state: crash, rerun, repeat, continue the history. State merging: a crash in sync i and its recovery depend only on the "
    "prefix h[:i+1], so they are executed once per distinct prefix; the repeat / continuation after a recovery are merged with "
    "the crash-free run of every history with that prefix when the recovered on-disk state is byte-identical to the crash-free "
    "state (counters *_merged_*), otherwise executed for every suffix (*_executed). evaluations = executed (prefix, crash point) "
    "pairs + crash-free histories + executed continuations. distinct_nontrivial counts distinct (changed set, touched set) pairs of crash-free syncs with a non-empty "
    "changed set and distinct (crash operation, touched-in-crashed-run, touched-in-rerun, changed set) tuples of crashed syncs."
)
ASSUMPTIONS = [
    "build-visible value of an option = its #define line in write_autoconf() output (differential on the implementation); an "
    "alias changes iff its replacement changes; the rename table is the same for all tree versions",
    "crash model: process death; completed operations persist on tmpfs, no reordering; each write() reaches the file as a "
    "prefix at the enumerated cut points; directories' own mtimes are not observed",
    "configurations are entered with Symbol.set_value on a fresh instance; every sync (also the rerun after a crash) is a new instance",
]

EPOCH_NS = 1_000_000_000 * 10**9

# --------------------------------------------------------------------------------------------------
# trees, rename table, configurations
# --------------------------------------------------------------------------------------------------

RENAMES = (
    "CONFIG_OLDP CONFIG_NEWP\n"
    "CONFIG_OLD_I !CONFIG_NEWI\n"
    "CONFIG_OLDM CONFIG_M\n"
    "CONFIG_OLD_ADDED CONFIG_ADDED\n"
)
ALIASES = {"OLDP": ("NEWP", False), "OLD_I": ("NEWI", True), "OLDM": ("M", False), "OLD_ADDED": ("ADDED", False)}

_OPTS = {
    "FOO_BAR": ('bool "foo bar"',),
    "B": ('bool "b"', "default y"),
    "N": ('int "n"', "default 5"),
    "N:string": ('string "n"', 'default "5"'),
    "S": ('string "s"', 'default "a\\"b\\\\c d"'),
    "U": ('int "u"', "depends on B", "default 1"),
    "NEWP": ('bool "newp"',),
    "NEWI": ('bool "newi"', "default y"),
    "M": ('int "m"', "default 2"),
    "ADDED": ('int "added"', "default 3"),
    "P_RM": ('bool "p_rm"', "default y"),
}

# version -> ordered option keys
_VERSIONS = {
    "base": ["FOO_BAR", "B", "N", "S", "U", "NEWP", "NEWI", "M", "P_RM"],
    # option added (with an alias), option with alias removed, option without alias removed, option retyped
    "all": ["FOO_BAR", "B", "N:string", "S", "U", "NEWI", "M", "ADDED"],
    "add": ["FOO_BAR", "B", "N", "S", "U", "NEWP", "NEWI", "M", "P_RM", "ADDED"],
    "rm_alias": ["FOO_BAR", "B", "N", "S", "U", "P_RM"],  # NEWP (plain alias, bool), M (plain alias, int), NEWI (inverted alias) removed
    "rm_plain": ["FOO_BAR", "B", "N", "S", "NEWP", "NEWI", "M"],  # U and P_RM removed (no aliases)
    "retype": ["FOO_BAR", "B", "N:string", "S", "U", "NEWP", "NEWI", "M", "P_RM"],
}


def tree_text(ver: str) -> str:
    out = ['mainmenu "T"', ""]
    for key in _VERSIONS[ver]:
        out.append(f"config {key.split(':')[0]}")
        out.extend("    " + line for line in _OPTS[key])
        out.append("")
    return "\n".join(out)


def tree_files(ver: str) -> Dict[str, str]:
    return {"Kconfig": tree_text(ver), "sdkconfig.rename": RENAMES}


CONFIGS_QUICK = [
    {},
    {"FOO_BAR": "y", "N": "7"},
    {"B": "n"},
    {"S": 'x\\y"z', "M": "9"},
    {"NEWP": "y", "NEWI": "n"},
    {"NEWP": "y", "ADDED": "4", "U": "6", "P_RM": "n"},
    # differs from the default configuration only in the option written LAST (auto.conf becomes a strict prefix)
    {"P_RM": "n"},
]
CONFIGS_WIDE = CONFIGS_QUICK  # index space shared by all tiers

QUICK_STATES = [(v, c) for v in ("base", "all") for c in range(len(CONFIGS_QUICK))]
# thorough, length 3: the quick states plus every single-change tree version under three configurations
WIDE_STATES = QUICK_STATES + [(v, c) for v in ("add", "rm_alias", "rm_plain", "retype") for c in (0, 3, 5)]
# thorough, length 4: both trees, five configurations
LONG_STATES = [(v, c) for v in ("base", "all") for c in (0, 1, 2, 4, 5)]
ALPHABETS = {"quick": QUICK_STATES, "wide": WIDE_STATES, "long": LONG_STATES}


def items(tier: str, seed: int):
    out = []
    if tier == "quick":
        for h in itertools.product(QUICK_STATES, repeat=3):
            out.append({"history": list(h), "alphabet": "quick"})
    else:
        for h in itertools.product(WIDE_STATES, repeat=3):  # superset of the quick tier
            out.append({"history": list(h), "alphabet": "wide"})
        for h in itertools.product(LONG_STATES, repeat=4):
            out.append({"history": list(h), "alphabet": "long"})
    return out


# --------------------------------------------------------------------------------------------------
# engine (works on explicit texts so that a replay file is self-contained)
# --------------------------------------------------------------------------------------------------

_DEFINE = re.compile(r"#define CONFIG_([A-Za-z0-9_]+) (.*)\n")
_CFGDECL = re.compile(r"^config ([A-Za-z0-9_]+)\n    (bool|int|string|hex|float)\b", re.M)


def cdep(name: str) -> str:
    return name.lower().replace("_", "/") + ".cdep"


class World:
    """Everything a history needs: tree texts per version, alias table, scratch directory."""

    def __init__(self, versions: Dict[str, Dict[str, str]], aliases: Dict[str, Any]):
        self.versions = versions
        self.aliases = {a: (t[0], bool(t[1])) for a, t in aliases.items()}
        self.by_target: Dict[str, List[str]] = {}
        for a in sorted(self.aliases):
            self.by_target.setdefault(self.aliases[a][0], []).append(a)
        self.types = {v: dict(_CFGDECL.findall(f["Kconfig"])) for v, f in versions.items()}
        self.dir = os.path.join(impl.wdir(), "c12deps")
        self._hdr: Dict[str, Dict[str, str]] = {}

    def inst(self, ver: str, cfg: Dict[str, str]):
        i = impl.Inst(self.versions[ver])
        k = i.k
        k.load_rename_files([os.path.join(os.path.dirname(i.path), "sdkconfig.rename")])
        for name in sorted(cfg):
            s = k.syms.get(name)
            if s is not None and s.nodes:
                s.set_value(cfg[name])
        return i

    def header(self, ver: str, cfg: Dict[str, str]) -> Dict[str, str]:
        key = repr((ver, sorted(cfg.items())))
        h = self._hdr.get(key)
        if h is None:
            h = dict(_DEFINE.findall(self.inst(ver, cfg).header_text()))
            self._hdr[key] = h
        return h

    def sync(self, ver: str, cfg: Dict[str, str]) -> None:
        self.inst(ver, cfg).k.sync_deps(self.dir)

    # ---- reference
    def changed(self, prev: Optional[Dict[str, str]], cur: Dict[str, str]) -> Dict[str, str]:
        """{relative .cdep path: name} that must be (and may be) touched going from header map prev to cur"""
        prev = prev or {}
        out: Dict[str, str] = {}
        for n in sorted(set(prev) | set(cur)):
            if prev.get(n) != cur.get(n):
                out[cdep(n)] = n
                for a in self.by_target.get(n, []):
                    out[cdep(a)] = a
        return out

    def classify(self, path: str, pver: Optional[str], ver: str, prev: Optional[Dict[str, str]], cur: Dict[str, str]) -> Dict[str, str]:
        """the construct behind one .cdep path, for the violation signature"""
        name = None
        for v in self.types.values():
            for n in v:
                if cdep(n) == path:
                    name = n
        role = "option"
        target = name
        if name is None:
            for a, (t, inv) in self.aliases.items():
                if cdep(a) == path:
                    name, target, role = a, t, "inverted_alias" if inv else "plain_alias"
        if name is None:
            return {"role": "unknown_path", "type": "?", "value_change": "?", "tree_change": "?"}
        tp = self.types.get(pver, {}).get(target) if pver is not None else None
        tc = self.types[ver].get(target)
        if pver is None:
            tree = "first_sync"
        elif tp is None and tc is None:
            tree = "undefined"
        elif tp is None:
            tree = "option_added"
        elif tc is None:
            tree = "option_removed"
        elif tp != tc:
            tree = "option_retyped"
        else:
            tree = "same_definition"
        a, b = (prev or {}).get(target), cur.get(target)
        vc = "unchanged" if a == b else "appeared" if a is None else "disappeared" if b is None else "value"
        return {"role": role, "type": tc or tp or "?", "value_change": vc, "tree_change": tree}


def observe(d: str) -> List[str]:
    """Relative paths of all files under d whose mtime is not the epoch (new files included); every such file is put back
    to the epoch, so that all files are at the epoch before the next step (restore_state() keeps that invariant)."""
    out: List[str] = []
    if not os.path.isdir(d):
        return out

    def rec(p: str, rel: str) -> None:
        with os.scandir(p) as it:
            entries = list(it)
        for e in entries:
            r = f"{rel}/{e.name}" if rel else e.name
            if e.is_dir(follow_symlinks=False):
                rec(e.path, r)
            elif e.stat(follow_symlinks=False).st_mtime_ns != EPOCH_NS:
                out.append(r)
                os.utime(e.path, ns=(EPOCH_NS, EPOCH_NS))

    rec(d, "")
    out.sort()
    return out


def read_autoconf(d: str) -> Optional[bytes]:
    try:
        with open(os.path.join(d, "auto.conf"), "rb") as f:
            return f.read()
    except OSError:
        return None


def site_of(exc: BaseException) -> str:
    import traceback

    for fr in reversed(traceback.extract_tb(exc.__traceback__)):
        if "/mck/" not in fr.filename:
            return f"{os.path.basename(fr.filename)}:{fr.name}"
    return "?"


def crash_class(op: dict, cut: Optional[int]) -> str:
    p = op["path"]
    what = "auto.conf" if p == "auto.conf" else "root_dir" if p == "." else "cdep" if p.endswith(".cdep") else "cdep_dir"
    s = f"{op['op']}:{what}"
    if op["op"] == "write" and cut is not None:
        n = op["n"]
        s += ":cut=0" if cut == 0 else ":cut=all_but_one" if cut == n - 1 else ":cut=line_boundary" if cut in op.get("_lb", ()) else ":cut=mid_line"
    return s


class Run:
    """One history.  All findings go through self.find(); crash-phase findings already present in the crash-free run
    at the same sync are dropped."""

    def __init__(self, w: World, history: List[Tuple[str, Dict[str, str]]], r: common.Result):
        self.w, self.h, self.r = w, history, r
        self.siblings: Dict[tuple, "Run"] = {}
        self.hdrs = [w.header(v, c) for v, c in history]
        self.free_keys: List[set] = [set() for _ in history]
        self.pre: List[list] = []
        self.logs: List[List[dict]] = []
        self.autoconf: List[Optional[bytes]] = []
        self.ok_upto = len(history)  # crash-free run completed this many syncs
        # on-disk state (paths, bytes; mtimes are forced before every step anyway) after sync j / after its repeat in the
        # crash-free run.  A crashed-and-recovered run that reaches exactly this state is MERGED with the crash-free run
        # (the implementation is a deterministic function of the disk state and the (tree, configuration) of the fresh
        # instance), i.e. the already checked repeat / continuation is not executed a second time.
        self.post_main: Dict[int, dict] = {}
        self.post_rep: Dict[int, dict] = {}

    # ---- reporting
    def case(self, upto: int, crash: Optional[dict]) -> dict:
        c: Dict[str, Any] = {"versions": {v: self.w.versions[v] for v in sorted({v for v, _ in self.h[: upto + 1]})}}
        c["aliases"] = {a: list(t) for a, t in sorted(self.w.aliases.items())}
        c["history"] = [[v, cfg] for v, cfg in self.h[: upto + 1]]
        c["crash"] = crash
        return c

    def find(self, step: int, key: tuple, sig: dict, msg: str, crash: Optional[dict]) -> None:
        if crash is None:
            self.free_keys[step].add(key)
        elif key in self.free_keys[step]:
            return
        self.r.violation(sig, msg, self.case(step, crash))

    def prev_of(self, i: int) -> Tuple[Optional[str], Optional[Dict[str, str]]]:
        return (self.h[i - 1][0], self.hdrs[i - 1]) if i > 0 else (None, None)

    def hist_str(self, upto: int) -> str:
        return " -> ".join(f"{v}{cfg}" for v, cfg in self.h[: upto + 1])

    # ---- one observed, uninterrupted sync + immediate repeat, with the crash-free oracle
    def observed_sync(self, j: int, crash: Optional[dict], phase: str, fs_log: Optional[list] = None) -> bool:
        w = self.w
        ver, cfg = self.h[j]
        pver, prev = self.prev_of(j)
        extra = {"phase": phase}
        if crash is not None:
            extra["crash_at"] = crash["class"]
        try:
            with faultfs.FaultFS(w.dir) as fs:
                w.sync(ver, cfg)
        except Exception as e:  # noqa: BLE001 -- observation
            s = site_of(e)
            self.find(j, ("exception", s), {"kind": "exception", "exc": type(e).__name__, "site": s, **extra},
                      f"sync #{j} of {self.hist_str(j)} raised {type(e).__name__}: {e} at {s}", crash)
            return False
        if fs_log is not None:
            fs_log.extend(fs.log)
        got = [p for p in observe(w.dir) if p != "auto.conf"]
        want = w.changed(prev, self.hdrs[j])
        for p in sorted(set(want) - set(got)):
            cl = w.classify(p, pver, ver, prev, self.hdrs[j])
            site = "core.py:_load_old_vals" if cl["tree_change"] == "option_removed" else "core.py:sync_deps"
            self.find(j, ("changed_not_touched", p), {"kind": "changed_not_touched", "site": site, **cl, **extra},
                      f"sync #{j} of {self.hist_str(j)}: {want[p]} changed ({cl['value_change']}, {cl['tree_change']}) but {p} was not touched", crash)
        for p in sorted(set(got) - set(want)):
            cl = w.classify(p, pver, ver, prev, self.hdrs[j])
            self.find(j, ("unchanged_touched", p), {"kind": "unchanged_touched", "site": "core.py:sync_deps", **cl, **extra},
                      f"sync #{j} of {self.hist_str(j)}: {p} was touched although its option did not change", crash)
        if crash is None:
            if want:
                self.r.outcome(("free", tuple(sorted(want)), tuple(got)))
            self.post_main[j] = faultfs.tree_state(w.dir)
        ok = self.repeat(j, crash, phase)
        if crash is None and ok:
            self.post_rep[j] = faultfs.tree_state(w.dir)
        return ok

    def repeat(self, j: int, crash: Optional[dict], phase: str) -> bool:
        """immediately repeated sync: no mutating operation, nothing touched, auto.conf's mtime and inode kept"""
        w = self.w
        ver, cfg = self.h[j]
        extra = {"phase": phase}
        if crash is not None:
            extra["crash_at"] = crash["class"]
        ac = os.path.join(w.dir, "auto.conf")
        ino = os.stat(ac).st_ino if os.path.exists(ac) else None
        try:
            with faultfs.FaultFS(w.dir) as fs:
                w.sync(ver, cfg)
        except Exception as e:  # noqa: BLE001
            s = site_of(e)
            self.find(j, ("exception_repeat", s), {"kind": "exception", "exc": type(e).__name__, "site": s, "in": "repeated_sync", **extra},
                      f"repeated sync #{j} of {self.hist_str(j)} raised {type(e).__name__}: {e} at {s}", crash)
            return False
        t = observe(w.dir)
        ino2 = os.stat(ac).st_ino if os.path.exists(ac) else None
        self.r.count("repeat_syncs")
        if t or fs.log or ino != ino2:
            what = sorted({"auto.conf" if p == "auto.conf" else "cdep" for p in t} | {o["op"] + ":" + ("auto.conf" if o["path"] == "auto.conf" else "other") for o in fs.log})
            self.find(j, ("repeat_touches", tuple(t)), {"kind": "repeat_sync_touches", "site": "core.py:sync_deps", "what": "+".join(what), **extra},
                      f"immediately repeated sync #{j} of {self.hist_str(j)} touched {t} (operations {[(o['op'], o['path']) for o in fs.log]})", crash)
        return True

    # ---- crash-free run
    def crash_free(self) -> None:
        w = self.w
        faultfs.restore_state(w.dir, {})
        for j in range(len(self.h)):
            self.pre.append(faultfs.tree_state(w.dir))
            log: List[dict] = []
            ok = self.observed_sync(j, None, "crash_free", log)
            self.logs.append(log)
            self.autoconf.append(read_autoconf(w.dir))
            if not ok:
                self.ok_upto = j
                return
        self.r.evals += 1

    # ---- one crash point of sync i
    def crash_at(self, i: int, point: Tuple[int, Optional[int]], alphabet: Optional[list] = None) -> None:
        w, r = self.w, self.r
        ver, cfg = self.h[i]
        pver, prev = self.prev_of(i)
        dry = self.logs[i]
        op = dict(dry[point[0]])
        if op["op"] == "write":
            op["_lb"] = [c for c in op["cuts"] if c and _is_line_boundary(self.autoconf[i], c)]
        crash = {"sync": i, "point": [point[0], point[1]], "class": crash_class(op, point[1])}
        extra = {"phase": "after_crash", "crash_at": crash["class"]}
        faultfs.restore_state(w.dir, self.pre[i], EPOCH_NS)
        observe(w.dir)  # (no-op unless an earlier step ended in an exception before its observation)
        with faultfs.FaultFS(w.dir, crash=point) as fs:
            try:
                w.sync(ver, cfg)
            except faultfs.Crash:
                pass
            except Exception as e:  # noqa: BLE001 -- cannot happen before the crash if the run is deterministic
                raise RuntimeError(f"crashed run raised {e!r} before its crash point") from e
        if not fs.crashed or not faultfs.same_prefix(dry, fs.log) or len(fs.log) != point[0] + 1:
            raise RuntimeError(f"crashed run diverged from the dry run: {fs.log} vs {dry} at {point}")
        r.evals += 1
        r.count("crash_points")
        if point[1] is not None:
            r.count("write_cuts")
        r.count("crash@" + crash["class"])
        t1 = [p for p in observe(w.dir) if p != "auto.conf"]
        # rerun of the same sync on a fresh instance
        try:
            w.sync(ver, cfg)
        except Exception as e:  # noqa: BLE001 -- observation: the rerun must complete
            s = site_of(e)
            self.find(i, ("exception_rerun", s), {"kind": "exception", "exc": type(e).__name__, "site": s, "in": "rerun_after_crash", **extra},
                      f"rerun of sync #{i} of {self.hist_str(i)} after a crash at {crash['class']} {point} raised {type(e).__name__}: {e} at {s}", crash)
            return
        t2 = [p for p in observe(w.dir) if p != "auto.conf"]
        want = w.changed(prev, self.hdrs[i])
        union = set(t1) | set(t2)
        r.outcome(("crash", crash["class"], tuple(t1), tuple(t2), tuple(sorted(want))))
        for p in sorted(set(want) - union):
            cl = w.classify(p, pver, ver, prev, self.hdrs[i])
            site = "core.py:_load_old_vals" if cl["tree_change"] == "option_removed" else "core.py:sync_deps"
            self.find(i, ("changed_not_touched", p), {"kind": "changed_not_touched", "site": site, **cl, **extra},
                      f"sync #{i} of {self.hist_str(i)} crashed at {crash['class']} {point} and was rerun: {want[p]} changed since the last completed sync "
                      f"({cl['value_change']}, {cl['tree_change']}) but {p} was touched neither by the crashed run {t1} nor by the rerun {t2}", crash)
        if read_autoconf(w.dir) != self.autoconf[i]:
            self.find(i, ("rerun_autoconf",), {"kind": "rerun_leaves_other_autoconf", "site": "core.py:_write_old_vals", **extra},
                      f"rerun of sync #{i} of {self.hist_str(i)} after a crash at {crash['class']} {point} left auto.conf {read_autoconf(w.dir)!r}, crash-free run {self.autoconf[i]!r}", crash)
        state = faultfs.tree_state(w.dir)
        if i in self.post_rep and state == self.post_main.get(i):
            r.count("repeat_merged_with_crash_free_state")
        else:
            r.count("repeat_after_rerun_executed")
            if not self.repeat(i, crash, "after_crash"):
                return
            state = faultfs.tree_state(w.dir)
        if i + 1 >= min(len(self.h), self.ok_upto):
            return
        if i in self.post_rep and state == self.post_rep[i]:
            r.count("continuation_merged_with_crash_free_state")
            return
        if alphabet is None:
            r.count("continuation_executed")
            for j in range(i + 1, min(len(self.h), self.ok_upto)):
                r.count("continuation_syncs")
                if not self.observed_sync(j, crash, "after_recovery"):
                    return
            return
        # This item represents ALL histories with the prefix h[:i+1]; the recovered state is not the crash-free one, so the
        # continuation is executed for every suffix over the alphabet (findings already made by a suffix's own crash-free
        # run are dropped through that sibling's free_keys).
        for suffix in itertools.product(alphabet, repeat=len(self.h) - i - 1):
            key = tuple((v, tuple(sorted(c.items()))) for v, c in suffix)
            sib = self.siblings.get(key)
            if sib is None:
                sib = Run(w, self.h[: i + 1] + list(suffix), common.Result())
                sib.crash_free()
                sib.r = r
                if len(self.siblings) < 2000:
                    self.siblings[key] = sib
            faultfs.restore_state(w.dir, state, EPOCH_NS)
            observe(w.dir)
            r.count("continuation_executed")
            r.evals += 1
            for j in range(i + 1, min(len(sib.h), sib.ok_upto)):
                r.count("continuation_syncs")
                if not sib.observed_sync(j, crash, "after_recovery"):
                    break

    def all_crashes(self, only: Optional[dict] = None, alphabet: Optional[list] = None) -> None:
        """alphabet given (explorer): the crash points of sync i are executed only by the history whose suffix after i is
        alphabet[0] repeated -- the representative of all histories sharing h[:i+1] (a crash in sync i and its recovery do
        not depend on later states) -- and a recovered state that differs from the crash-free one fans out over all suffixes.
        alphabet None (replay of one case): this history only."""
        for i in range(min(len(self.h), self.ok_upto)):
            if only is None and alphabet is not None and any(s != alphabet[0] for s in self.h[i + 1 :]):
                self.r.count("syncs_covered_by_prefix_representative")
                continue
            self.r.count("syncs_crash_enumerated")
            for point in faultfs.crash_points(self.logs[i]):
                if only is not None and (only["sync"] != i or tuple(only["point"]) != point):
                    continue
                self.crash_at(i, point, alphabet if only is None else None)


def _is_line_boundary(data: Optional[bytes], c: int) -> bool:
    return bool(data) and 0 < c <= len(data) and data[c - 1 : c] == b"\n"


# --------------------------------------------------------------------------------------------------

_world: Optional[World] = None


def world() -> World:
    global _world
    if _world is None:
        _world = World({v: tree_files(v) for v in _VERSIONS}, ALIASES)
    return _world


def run_item(item) -> common.Result:
    r = common.Result()
    r.programs = 1
    w = world()
    hist = [(v, CONFIGS_WIDE[c]) for v, c in item["history"]]
    run = Run(w, hist, r)
    run.crash_free()
    run.all_crashes(alphabet=[(v, CONFIGS_WIDE[c]) for v, c in ALPHABETS[item["alphabet"]]])
    r.sample = {
        "history": [[v, cfg] for v, cfg in hist],
        "tree_of_first_state": w.versions[hist[0][0]]["Kconfig"],
        "rename_table": RENAMES,
        "operations_of_first_sync": [(o["op"], o["path"]) for o in run.logs[0]] if run.logs else [],
        "crash_points_per_sync": [len(faultfs.crash_points(l)) for l in run.logs],
    }
    return r


def replay(case) -> List[dict]:
    r = common.Result()
    w = World(case["versions"], case["aliases"])
    hist = [(v, dict(cfg)) for v, cfg in case["history"]]
    run = Run(w, hist, r)
    run.crash_free()
    if case.get("crash"):
        run.all_crashes(only=case["crash"])
    return r.viols

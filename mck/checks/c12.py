"""C12 -- dependency sync flags every changed option, even across interrupted runs.

Fault enumeration (mck/faultfs.py).  A history is a sequence of states (tree version, configuration); after each state
`Kconfig.sync_deps(<dir>)` runs on a FRESH instance (a build = a new process).  For every history the crash-free run is
executed first (under the fault file system without injection, which enumerates the mutating operations and the cut
points of the auto.conf write of every sync), then for every sync i and EVERY crash point of it: the directory is put
back to its state before sync i, the sync runs to the crash, the same sync is rerun on a fresh instance to completion,
repeated once more, and the history is continued to its end.

Reference ("build-visible value"): the #define lines `write_autoconf()` produces for a state; an option that has no
line is absent.  changed(prev, cur) = names whose line differs (appeared / disappeared / other value) plus every
deprecated alias (own table, not the implementation's) of such a name.  "Touched" = the .cdep file's mtime left the fixed
epoch all files are forced to (os.utime, outside the interposed region) before each observed step -- no clock is read.

Oracles
  crash-free   touched .cdep set == changed set (exactly); an immediately repeated sync performs no mutating operation,
               touches nothing and leaves auto.conf's mtime / inode.
  with a crash every member of changed(last COMPLETED sync, current) was touched in the crashed run or in the rerun; the
               rerun completes and leaves the same auto.conf as the crash-free run; a further repeat touches nothing;
               the rest of the history satisfies the crash-free clause.
State merging (sound because a fresh instance's sync is a deterministic function of the on-disk state and its (tree,
configuration)): the crash points of sync i are executed once per distinct prefix h[:i+1] (by the history whose later states
are the first state of the alphabet); if the recovered on-disk state (paths + bytes) equals the crash-free state, the repeat /
continuation is the one already checked in the crash-free run of every history with that prefix, otherwise the continuation is
executed for every suffix over the alphabet.

A crash-phase finding is reported only if the crash-free run of the same history does not already show the same
(kind, file) at the same sync, so a crash-free defect is not reported once more per crash point under another name.

Two further families are explored crash-free (no injection; the crash clause is about a rerun in a new process, which the
family above covers):

Sessions (class Session) -- ONE Kconfig instance runs several syncs.  A step = (same instance | new instance of a tree
version) x configuration (the live instance is moved there with unset_value / set_value) x target directory (two
directories) x what happened to that directory since its last sync: kept intact, auto.conf deleted (the .cdep files stay),
emptied, removed; a directory that does not exist yet is new.  Reference: recorded = #define map of the last completed
sync into THAT directory, nothing once its auto.conf is gone; touched .cdep set == changed(recorded, current) exactly,
whatever the instance loaded or synced before -- i.e. what a fresh instance syncing into that directory state touches (the
steps with a new instance are such fresh instances and are judged by the same reference).  A step that repeats the previous
one (same directory kept intact, same tree and configuration) is an immediately repeated sync.

Rename tables (run_table) -- every sequence of up to 3 (thorough 4) rename lines over 3 deprecated names x 3 targets
(bool, bool inverted, int), so: several aliases per option, a deprecated name mapped again (identical line repeated,
re-targeted to another option, inversion changed), in one rename file or with the re-mapping starting a second file.
Own alias table = last mapping of each deprecated name (load_rename_files docstring: "the last mapping is used"), all
other names unaffected.  Each table runs one fixed history (fresh instance per sync) in which each target appears, changes,
is removed from the tree and comes back, with the crash-free oracle above.

Value TEXT dimension (non-bool options whose value text looks like a tristate).  `n` means "absent" for a bool only: a string
option whose value is the text `n` (a parity / end-of-line selector), `y`, `m` or the empty string has a #define line like any
other string, so it appears / disappears / changes like any other.  Two places explore it:
  * the main trees carry T (string, default "n", depends on B, deprecated alias OLD_T; removed by tree version rm_alias), so
    that families (1)-(3) see it appear at a first sync, appear / disappear through its dependency (fresh and live
    instance), be removed / re-added by a tree version, and be the target of rename tables (4th table target);
  * a second world ("text": options G, T, K; tree versions with / without T) whose states are: T not in the tree, T hidden by
    G, T visible with the text n / y / "" / x (thorough: also m, and T removed while G is off) -- ALL histories of length 3
    (thorough also 4) over these states, with every crash point, exactly as family (1); and all one-instance sessions of 3 syncs
    over {n, hidden, y, ""} as family (2), so every ordered pair (absent | hidden | each text) -> (absent | hidden | each text) is
    a first sync, a later sync of a new process, a rerun after a crash and a sync of a live instance.
The oracle is unchanged (the #define map decides what changed); the signature of a finding on a string option names the
tristate-looking text involved (key `text`).

Name SHAPE dimension (names on which a textual transformation of a name is not the identity).  An option / alias name is turned into
a rename-table key (prefix stripped from `CONFIG_<name>`), an auto.conf line (`CONFIG_<name>=...`, parsed back by the next sync) and a
path (`lower()`, `_` -> `/`); the dependency file of a name is a function of the WHOLE name, so a name in which the text of the
config prefix occurs again (inside, doubled at the start, twice) must keep every occurrence.  Two places explore it:
  * the main world carries, in EVERY history / session of families (1)-(2), the option ESP_CONFIG_W (int; prefix text inside the option
    name; changed by configuration 3, removed by tree version rm_alias) with the alias OLD_CONFIG_W, the alias ESP_CONFIG_OLDM of the
    plainly named M, the alias ESP_OLDM (= that name without the inner occurrence) of ANOTHER option (NEWI, inverted), and the alias
    CONFIG_OLDP (rename line `CONFIG_CONFIG_OLDP CONFIG_NEWP`) next to its plain twin OLDP -- so each appears at a first sync, changes,
    disappears with its target, is removed / re-added by a tree version and is subject to every crash point;
  * family (3) runs EVERY rename table under every pair (shape of the three deprecated names, shape of the target option names):
    OLD_SHAPES = plain | inner_prefix | prefix_twice | prefix_start_and_inner (the three names of a shape differ from each other exactly
    by deleting occurrences of the prefix text, so a wrongly transformed name is at once the name of another alias, of another target if
    the table says so) x TARGET_SHAPES = plain | prefix_in_option_name (tree with the options NEW_CONFIG_P, CONFIG_M,
    T_CONFIG_CONFIG_T).  The signature of a finding names both shapes (keys `alias_names`, `target_names`) unless both are plain.
The reference does not change: file of a name = cdep(name) of the name as written in the Kconfig file / after the first CONFIG_ of the
rename line.
"""

from __future__ import annotations

import itertools
import os
import re
from typing import Any, Dict, List, Optional, Tuple

from .. import common, faultfs, impl

ID = "C12"
LEVEL = "fault_enumeration"
RULE = (
    "(1) all histories over states = (tree version, configuration): quick 14 states (2 trees x 7 configurations) ^ 3; thorough 26 states "
    "(6 trees) ^ 3 plus 10 states ^ 4; and in the `text` world (string option T whose value text is a tristate look-alike) quick 6 states "
    "(T absent from the tree, hidden by its dependency, visible as n / y / empty / x) ^ 3, thorough 8 states (also m, absent+dependency off) ^ 3 "
    "plus 5 states ^ 4; one fresh Kconfig per sync; crash-free run of every history, then for every "
    "sync every crash point (before each mutating FS operation: mkdir per level, truncating touch, open(auto.conf,'w'); inside "
    "the auto.conf write at 0 / every line boundary / middle of last line / all-but-one byte), each on a fresh copy of the "
    "pre-state: crash, rerun, repeat, continue the history. State merging: a crash in sync i and its recovery depend only on the "
    "prefix h[:i+1], so they are executed once per distinct prefix; the repeat / continuation after a recovery are merged with "
    "the crash-free run of every history with that prefix when the recovered on-disk state is byte-identical to the crash-free "
    "state (counters *_merged_*), otherwise executed for every suffix (*_executed). "
    "(2) sessions, crash-free: all sequences of 3 syncs (thorough also 4) in which every step after the first chooses {same instance, new "
    "instance of a tree version} x configuration x {directory 0, directory 1} x {kept, auto.conf deleted, emptied, removed} (a "
    "directory that does not exist is new); quick 1 tree x 4 configurations, thorough 2 trees x 7 configurations ^ 3 "
    "plus 1 tree x 3 configurations ^ 4; text world: quick 1 tree x {n, hidden, y, empty}, thorough 2 trees (with / without T) x 6 configurations, 3 syncs; one work item per (first, second) step, every session re-executed from its first step "
    "(counter session_syncs). (3) rename tables, crash-free: every sequence of 1..3 (thorough 1..4) rename lines over 3 deprecated names "
    "(up to renaming: in order of first use) x 4 targets (bool, inverted bool, int, dependent string whose text is n), as one file and -- if a name is mapped again -- "
    "split into two files at the re-mapping, each under one 5-sync history (target appears / changes / is removed from the tree / "
    "comes back; counter rename_table_runs), and each under all 4 x 2 name shapes: deprecated names plain / with the text CONFIG_ inside, "
    "deleted, doubled at the start / twice, once, not at all / at the start and inside, twice inside, deleted (the three names of a shape differ "
    "exactly by deleting occurrences of the prefix text) x target option names plain / NEW_CONFIG_P, CONFIG_M, T_CONFIG_CONFIG_T. "
    "Names with the prefix text inside are also part of every history of (1) and (2): option ESP_CONFIG_W with alias OLD_CONFIG_W, aliases "
    "ESP_CONFIG_OLDM (of M), ESP_OLDM (of NEWI, inverted), CONFIG_OLDP (of NEWP, next to OLDP). "
    "evaluations = executed (prefix, crash point) pairs + crash-free histories + executed continuations + sessions + rename-table "
    "histories. distinct_nontrivial counts distinct (changed set, touched set) pairs of crash-free syncs with a non-empty "
    "changed set, distinct (crash operation, touched-in-crashed-run, touched-in-rerun, changed set) tuples of crashed syncs and distinct "
    "(instance fresh / synced before, directory state, changed set, touched set) tuples of session syncs."
)
ASSUMPTIONS = [
    "build-visible value of an option = its #define line in write_autoconf() output (differential on the implementation); an "
    "alias changes iff its replacement changes; the rename table is the same for all tree versions of one history; a deprecated "
    "name that is mapped more than once has its LAST mapping only (load_rename_files docstring), the other names keep theirs; "
    "targets of rename lines are options of some tree version, deprecated names are never options or targets",
    "names: option names match [A-Z0-9_]+ and deprecated names [A-Z0-9_]+ (what the rename-line grammar accepts for both sides), may contain "
    "the text of the config prefix any number of times, do not end in `_` and contain no `__` (no empty path component); distinct names have "
    "distinct dependency files (no two names that differ in letter case only)",
    "crash model: process death; completed operations persist on tmpfs, no reordering; each write() reaches the file as a "
    "prefix at the enumerated cut points; directories' own mtimes are not observed",
    "configurations are entered with Symbol.set_value on a fresh instance; in families (1) and (3) every sync (also the rerun after a "
    "crash) is a new instance; in a session the one instance is moved to the next configuration with unset_value / set_value and "
    "the expected #define map is read from a twin instance taken through the same calls",
    "value texts: only a bool's n is 'absent'; a string option whose text is n / y / m / empty has a build-visible value (its #define line) "
    "like any other string, so it appears, disappears and changes; int / hex options cannot hold such texts (set_value refuses them) and "
    "are not generated with them",
    "sessions: 'value recorded by the last completed sync' is per dependency directory and is what its auto.conf holds: after "
    "auto.conf was deleted / the directory emptied or removed, and for a new directory, nothing is recorded, so every option "
    "with a build-visible value (and its aliases) must be touched, exactly as for a first sync; sessions are not crash-injected",
]

EPOCH_NS = 1_000_000_000 * 10**9

# --------------------------------------------------------------------------------------------------
# trees, rename table, configurations
# --------------------------------------------------------------------------------------------------

RENAMES = (
    "CONFIG_OLDP CONFIG_NEWP\n"
    "CONFIG_OLD_I !CONFIG_NEWI\n"
    "CONFIG_OLDM CONFIG_M\n"
    "CONFIG_OLD_ADDED CONFIG_ADDED\n"
    "CONFIG_OLD_T CONFIG_T\n"
    # names in which the text of the config prefix occurs again (see "Name SHAPE dimension" in the module docstring): an alias with the
    # prefix inside its name for an option with such a name / for a plainly named option; the name that is left when that inner
    # occurrence is deleted, as an alias of ANOTHER option (inverted); the prefix doubled at the start, next to its plain twin OLDP
    "CONFIG_OLD_CONFIG_W CONFIG_ESP_CONFIG_W\n"
    "CONFIG_ESP_CONFIG_OLDM CONFIG_M\n"
    "CONFIG_ESP_OLDM !CONFIG_NEWI\n"
    "CONFIG_CONFIG_OLDP CONFIG_NEWP\n"
)
ALIASES = {"OLDP": ("NEWP", False), "OLD_I": ("NEWI", True), "OLDM": ("M", False), "OLD_ADDED": ("ADDED", False), "OLD_T": ("T", False),
           "OLD_CONFIG_W": ("ESP_CONFIG_W", False), "ESP_CONFIG_OLDM": ("M", False), "ESP_OLDM": ("NEWI", True), "CONFIG_OLDP": ("NEWP", False)}
# the `text` world: one string option whose value text looks like a tristate
RENAMES_TEXT = "CONFIG_OLD_T CONFIG_T\n"
ALIASES_TEXT = {"OLD_T": ("T", False)}

_OPTS = {
    "FOO_BAR": ('bool "foo bar"',),
    "B": ('bool "b"', "default y"),
    "N": ('int "n"', "default 5"),
    "N:string": ('string "n"', 'default "5"'),
    "S": ('string "s"', 'default "a\\"b\\\\c d"'),
    "U": ('int "u"', "depends on B", "default 1"),
    "NEWP": ('bool "newp"',),
    "NEWI": ('bool "newi"', "default y"),
    "M": ('int "m"', "default 2"),
    # an option whose NAME contains the text of the config prefix (auto.conf line CONFIG_ESP_CONFIG_W=4, file esp/config/w.cdep)
    "ESP_CONFIG_W": ('int "w"', "default 4"),
    "ADDED": ('int "added"', "default 3"),
    "P_RM": ('bool "p_rm"', "default y"),
    # a string whose value is the TEXT n (not the bool n): build-visible whenever B is on
    "T": ('string "t (n/e/o)"', 'default "n"', "depends on B"),
    # text world
    "G": ('bool "g"', "default y"),
    "T:g": ('string "t (n/e/o)"', 'default "n"', "depends on G"),
    "K": ('int "k"', "default 1"),
}

# version -> ordered option keys
_VERSIONS = {
    # (T is NOT the last option: the option written last must be able to go to n alone, see CONFIGS_QUICK[6])
    "base": ["FOO_BAR", "B", "N", "S", "U", "NEWP", "NEWI", "M", "ESP_CONFIG_W", "T", "P_RM"],
    # option added (with an alias), option with alias removed, option without alias removed, option retyped
    "all": ["FOO_BAR", "B", "N:string", "S", "U", "NEWI", "M", "ESP_CONFIG_W", "T", "ADDED"],
    "add": ["FOO_BAR", "B", "N", "S", "U", "NEWP", "NEWI", "M", "ESP_CONFIG_W", "T", "P_RM", "ADDED"],
    # NEWP (plain alias, bool), M (plain alias, int), NEWI (inverted alias), T (plain alias, string with the text n), ESP_CONFIG_W (prefix
    # text inside the name of the option and of its alias) removed
    "rm_alias": ["FOO_BAR", "B", "N", "S", "U", "P_RM"],
    "rm_plain": ["FOO_BAR", "B", "N", "S", "NEWP", "NEWI", "T", "ESP_CONFIG_W", "M"],  # U and P_RM removed (no aliases)
    "retype": ["FOO_BAR", "B", "N:string", "S", "U", "NEWP", "NEWI", "M", "ESP_CONFIG_W", "T", "P_RM"],
    # text world: with / without the string option
    "txt": ["G", "T:g", "K"],
    "txt_rm": ["G", "K"],
}
WORLD_VERSIONS = {"main": ["base", "all", "add", "rm_alias", "rm_plain", "retype"], "text": ["txt", "txt_rm"]}
WORLD_RENAMES = {"main": (RENAMES, ALIASES), "text": (RENAMES_TEXT, ALIASES_TEXT)}


def tree_text(ver: str, naming: Optional[Dict[str, str]] = None) -> str:
    """naming: {option name used in this module: name the option has in the generated tree} (definitions and `depends on` lines)"""
    naming = naming or {}
    out = ['mainmenu "T"', ""]
    for key in _VERSIONS[ver]:
        name = key.split(":")[0]
        out.append(f"config {naming.get(name, name)}")
        for line in _OPTS[key]:
            if line.startswith("depends on "):
                dep = line[len("depends on "):]
                line = "depends on " + naming.get(dep, dep)
            out.append("    " + line)
        out.append("")
    return "\n".join(out)


def tree_files(ver: str, rename_texts: Optional[List[str]] = None, naming: Optional[Dict[str, str]] = None) -> Dict[str, str]:
    """program files of a tree version; rename_texts: the texts of the sdkconfig.rename files (default: [RENAMES])"""
    files = {"Kconfig": tree_text(ver, naming)}
    for name, text in zip(rename_file_names(len(rename_texts or [RENAMES])), rename_texts or [RENAMES]):
        files[name] = text
    return files


def rename_file_names(n: int) -> List[str]:
    return ["sdkconfig.rename"] + [f"sdkconfig.rename.{i}" for i in range(2, n + 1)]


CONFIGS_QUICK = [
    {},
    {"FOO_BAR": "y", "N": "7"},
    {"B": "n"},
    {"S": 'x\\y"z', "M": "9", "ESP_CONFIG_W": "8"},
    {"NEWP": "y", "NEWI": "n"},
    {"NEWP": "y", "ADDED": "4", "U": "6", "P_RM": "n"},
    # differs from the default configuration only in the option written LAST (auto.conf becomes a strict prefix)
    {"P_RM": "n"},
]
CONFIGS_WIDE = CONFIGS_QUICK  # index space shared by all tiers
# text world: T visible as n (default) / hidden / visible as y / empty / x / m; hidden with a pending user value
CONFIGS_TEXT = [{}, {"G": "n"}, {"T": "y"}, {"T": ""}, {"T": "x"}, {"T": "m"}]
CONFIGS = {"main": CONFIGS_WIDE, "text": CONFIGS_TEXT}

QUICK_STATES = [(v, c) for v in ("base", "all") for c in range(len(CONFIGS_QUICK))]
# thorough, length 3: the quick states plus every single-change tree version under three configurations
WIDE_STATES = QUICK_STATES + [(v, c) for v in ("add", "rm_alias", "rm_plain", "retype") for c in (0, 3, 5)]
# thorough, length 4: both trees, five configurations
LONG_STATES = [(v, c) for v in ("base", "all") for c in (0, 1, 2, 4, 5)]
TEXT_QUICK_STATES = [("txt", c) for c in range(5)] + [("txt_rm", 0)]
TEXT_WIDE_STATES = TEXT_QUICK_STATES + [("txt", 5), ("txt_rm", 1)]
TEXT_LONG_STATES = [("txt", 0), ("txt", 1), ("txt", 2), ("txt", 3), ("txt_rm", 0)]
# alphabet -> (world, states)
ALPHABETS = {
    "quick": ("main", QUICK_STATES), "wide": ("main", WIDE_STATES), "long": ("main", LONG_STATES),
    "text_quick": ("text", TEXT_QUICK_STATES), "text_wide": ("text", TEXT_WIDE_STATES), "text_long": ("text", TEXT_LONG_STATES),
}


# sessions (one instance, several syncs): tree versions a new instance may have, configuration indices, number of syncs
SESSIONS = {
    "quick": [(["base"], [0, 1, 3, 4], 3, "main"), (["txt"], [0, 1, 2, 3], 3, "text")],
    "thorough": [(["base", "all"], list(range(len(CONFIGS_QUICK))), 3, "main"), (["base"], [0, 1, 4], 4, "main"),
                 (["txt", "txt_rm"], list(range(len(CONFIGS_TEXT))), 3, "text")],
}
TABLE_LINES = {"quick": 3, "thorough": 4}


def items(tier: str, seed: int):
    out = []
    t = "quick" if tier == "quick" else "thorough"
    if tier == "quick":
        for h in itertools.product(QUICK_STATES, repeat=3):
            out.append({"history": list(h), "alphabet": "quick"})
        for h in itertools.product(TEXT_QUICK_STATES, repeat=3):
            out.append({"history": list(h), "alphabet": "text_quick"})
    else:
        for h in itertools.product(WIDE_STATES, repeat=3):  # superset of the quick tier
            out.append({"history": list(h), "alphabet": "wide"})
        for h in itertools.product(LONG_STATES, repeat=4):
            out.append({"history": list(h), "alphabet": "long"})
        for h in itertools.product(TEXT_WIDE_STATES, repeat=3):  # superset of the quick tier
            out.append({"history": list(h), "alphabet": "text_wide"})
        for h in itertools.product(TEXT_LONG_STATES, repeat=4):
            out.append({"history": list(h), "alphabet": "text_long"})
    for k, (vers, cfgs, length, _world_name) in enumerate(SESSIONS[t]):
        for pre in session_prefixes(vers, cfgs):
            out.append({"kind": "sessions", "prefix": pre, "space": [t, k]})
    for lines in rename_tables(TABLE_LINES[t]):
        for shape in table_shapes(lines):
            out.append({"kind": "table", "lines": [list(l) for l in lines], "shape": list(shape)})
    return out


# --------------------------------------------------------------------------------------------------
# engine (works on explicit texts so that a replay file is self-contained)
# --------------------------------------------------------------------------------------------------

_DEFINE = re.compile(r"#define CONFIG_([A-Za-z0-9_]+) (.*)\n")
_CFGDECL = re.compile(r"^config ([A-Za-z0-9_]+)\n    (bool|int|string|hex|float)\b", re.M)


def cdep(name: str) -> str:
    return name.lower().replace("_", "/") + ".cdep"


_HDR: Dict[str, Dict[str, str]] = {}


class World:
    """Everything a history needs: tree texts per version, alias table, scratch directory."""

    def __init__(self, versions: Dict[str, Dict[str, str]], aliases: Dict[str, Any], rename_files: Optional[List[str]] = None):
        self.versions = versions
        self.rename_files = list(rename_files or ["sdkconfig.rename"])  # loaded in this order by every instance
        self.aliases = {a: (t[0], bool(t[1])) for a, t in aliases.items()}
        self.by_target: Dict[str, List[str]] = {}
        for a in sorted(self.aliases):
            self.by_target.setdefault(self.aliases[a][0], []).append(a)
        self.types = {v: dict(_CFGDECL.findall(f["Kconfig"])) for v, f in versions.items()}
        self.dir = os.path.join(impl.wdir(), "c12deps")
        self.sess_root = os.path.join(impl.wdir(), "c12sess")  # parent of the dependency directories of a session

    def bare(self, ver: str):
        """fresh instance of a tree version, rename files loaded, nothing assigned"""
        i = impl.Inst(self.versions[ver])
        i.k.load_rename_files([os.path.join(os.path.dirname(i.path), f) for f in self.rename_files])
        return i

    @staticmethod
    def move(k, cur: Dict[str, str], cfg: Dict[str, str]) -> None:
        """takes a live instance from the assignment cur to the assignment cfg: unset_value() for every name assigned in cur
        only, set_value() for every name whose assignment differs (names the tree does not define are skipped)"""
        for name in sorted(cur):
            if name not in cfg:
                s = k.syms.get(name)
                if s is not None and s.nodes:
                    s.unset_value()
        for name in sorted(cfg):
            if cur.get(name) != cfg[name]:
                s = k.syms.get(name)
                if s is not None and s.nodes:
                    s.set_value(cfg[name])

    def inst(self, ver: str, cfg: Dict[str, str]):
        i = self.bare(ver)
        self.move(i.k, {}, cfg)
        return i

    def header(self, ver: str, cfg: Dict[str, str]) -> Dict[str, str]:
        return self.header_seq(ver, [cfg])

    def header_seq(self, ver: str, cfgs: List[Dict[str, str]]) -> Dict[str, str]:
        """#define map of a TWIN instance that was taken through the assignments cfgs one after the other (the way a session
        moves its one instance); the header does not depend on the rename files, so the cache is keyed by the tree text"""
        key = repr((self.versions[ver]["Kconfig"], [sorted(c.items()) for c in cfgs]))
        h = _HDR.get(key)
        if h is None:
            i = self.bare(ver)
            cur: Dict[str, str] = {}
            for c in cfgs:
                self.move(i.k, cur, c)
                cur = c
            h = dict(_DEFINE.findall(i.header_text()))
            if len(_HDR) > 20000:
                _HDR.clear()
            _HDR[key] = h
        return h

    def sync(self, ver: str, cfg: Dict[str, str]) -> None:
        self.inst(ver, cfg).k.sync_deps(self.dir)

    # ---- reference
    def changed(self, prev: Optional[Dict[str, str]], cur: Dict[str, str]) -> Dict[str, str]:
        """{relative .cdep path: name} that must be (and may be) touched going from header map prev to cur"""
        prev = prev or {}
        out: Dict[str, str] = {}
        for n in sorted(set(prev) | set(cur)):
            if prev.get(n) != cur.get(n):
                out[cdep(n)] = n
                for a in self.by_target.get(n, []):
                    out[cdep(a)] = a
        return out

    def classify(self, path: str, pver: Optional[str], ver: str, prev: Optional[Dict[str, str]], cur: Dict[str, str]) -> Dict[str, str]:
        """the construct behind one .cdep path, for the violation signature"""
        name = None
        for v in self.types.values():
            for n in v:
                if cdep(n) == path:
                    name = n
        role = "option"
        target = name
        if name is None:
            for a, (t, inv) in self.aliases.items():
                if cdep(a) == path:
                    name, target, role = a, t, "inverted_alias" if inv else "plain_alias"
        if name is None:
            return {"role": "unknown_path", "type": "?", "value_change": "?", "tree_change": "?"}
        tp = self.types.get(pver, {}).get(target) if pver is not None else None
        tc = self.types[ver].get(target)
        if pver is None:
            tree = "first_sync"
        elif tp is None and tc is None:
            tree = "undefined"
        elif tp is None:
            tree = "option_added"
        elif tc is None:
            tree = "option_removed"
        elif tp != tc:
            tree = "option_retyped"
        else:
            tree = "same_definition"
        a, b = (prev or {}).get(target), cur.get(target)
        vc = "unchanged" if a == b else "appeared" if a is None else "disappeared" if b is None else "value"
        out = {"role": role, "type": tc or tp or "?", "value_change": vc, "tree_change": tree}
        # a non-bool value whose text looks like a tristate / is empty: named in the signature (new value first)
        look = [_LOOKALIKE[x] for x in (b, a) if x in _LOOKALIKE]
        if look and out["type"] != "bool":
            out["text"] = look[0]
        # the name behind the file (option or alias) contains the text of the config prefix: named in the signature
        if "CONFIG_" in name:
            out["name_shape"] = "prefix_text_in_name"
        return out


_LOOKALIKE = {'"n"': "n", '"y"': "y", '"m"': "m", '""': "empty"}


def observe(d: str) -> List[str]:
    """Relative paths of all files under d whose mtime is not the epoch (new files included); every such file is put back
    to the epoch, so that all files are at the epoch before the next step (restore_state() keeps that invariant)."""
    out: List[str] = []
    if not os.path.isdir(d):
        return out

    def rec(p: str, rel: str) -> None:
        with os.scandir(p) as it:
            entries = list(it)
        for e in entries:
            r = f"{rel}/{e.name}" if rel else e.name
            if e.is_dir(follow_symlinks=False):
                rec(e.path, r)
            elif e.stat(follow_symlinks=False).st_mtime_ns != EPOCH_NS:
                out.append(r)
                os.utime(e.path, ns=(EPOCH_NS, EPOCH_NS))

    rec(d, "")
    out.sort()
    return out


def read_autoconf(d: str) -> Optional[bytes]:
    try:
        with open(os.path.join(d, "auto.conf"), "rb") as f:
            return f.read()
    except OSError:
        return None


def site_of(exc: BaseException) -> str:
    import traceback

    for fr in reversed(traceback.extract_tb(exc.__traceback__)):
        if "/mck/" not in fr.filename:
            return f"{os.path.basename(fr.filename)}:{fr.name}"
    return "?"


def crash_class(op: dict, cut: Optional[int]) -> str:
    p = op["path"]
    what = "auto.conf" if p == "auto.conf" else "root_dir" if p == "." else "cdep" if p.endswith(".cdep") else "cdep_dir"
    s = f"{op['op']}:{what}"
    if op["op"] == "write" and cut is not None:
        n = op["n"]
        s += ":cut=0" if cut == 0 else ":cut=all_but_one" if cut == n - 1 else ":cut=line_boundary" if cut in op.get("_lb", ()) else ":cut=mid_line"
    return s


class Run:
    """One history.  All findings go through self.find(); crash-phase findings already present in the crash-free run
    at the same sync are dropped."""

    def __init__(self, w: World, history: List[Tuple[str, Dict[str, str]]], r: common.Result, sig_extra: Optional[dict] = None):
        self.w, self.h, self.r = w, history, r
        self.sig_extra = dict(sig_extra or {})  # construct named in every signature of this run (rename-table family)
        self.siblings: Dict[tuple, "Run"] = {}
        self.hdrs = [w.header(v, c) for v, c in history]
        self.free_keys: List[set] = [set() for _ in history]
        self.pre: List[list] = []
        self.logs: List[List[dict]] = []
        self.autoconf: List[Optional[bytes]] = []
        self.ok_upto = len(history)  # crash-free run completed this many syncs
        # on-disk state (paths, bytes; mtimes are forced before every step anyway) after sync j / after its repeat in the
        # crash-free run.  A crashed-and-recovered run that reaches exactly this state is MERGED with the crash-free run
        # (the implementation is a deterministic function of the disk state and the (tree, configuration) of the fresh
        # instance), i.e. the already checked repeat / continuation is not executed a second time.
        self.post_main: Dict[int, dict] = {}
        self.post_rep: Dict[int, dict] = {}

    # ---- reporting
    def case(self, upto: int, crash: Optional[dict]) -> dict:
        c: Dict[str, Any] = {"versions": {v: self.w.versions[v] for v in sorted({v for v, _ in self.h[: upto + 1]})}}
        c["aliases"] = {a: list(t) for a, t in sorted(self.w.aliases.items())}
        c["rename_files"] = list(self.w.rename_files)
        c["history"] = [[v, cfg] for v, cfg in self.h[: upto + 1]]
        c["crash"] = crash
        if self.sig_extra:
            c["sig_extra"] = self.sig_extra
        return c

    def find(self, step: int, key: tuple, sig: dict, msg: str, crash: Optional[dict]) -> None:
        if crash is None:
            self.free_keys[step].add(key)
        elif key in self.free_keys[step]:
            return
        self.r.violation({**sig, **self.sig_extra}, msg, self.case(step, crash))

    def prev_of(self, i: int) -> Tuple[Optional[str], Optional[Dict[str, str]]]:
        return (self.h[i - 1][0], self.hdrs[i - 1]) if i > 0 else (None, None)

    def hist_str(self, upto: int) -> str:
        return " -> ".join(f"{v}{cfg}" for v, cfg in self.h[: upto + 1])

    # ---- one observed, uninterrupted sync + immediate repeat, with the crash-free oracle
    def observed_sync(self, j: int, crash: Optional[dict], phase: str, fs_log: Optional[list] = None) -> bool:
        w = self.w
        ver, cfg = self.h[j]
        pver, prev = self.prev_of(j)
        extra = {"phase": phase}
        if crash is not None:
            extra["crash_at"] = crash["class"]
        try:
            with faultfs.FaultFS(w.dir) as fs:
                w.sync(ver, cfg)
        except Exception as e:  # noqa: BLE001 -- observation
            s = site_of(e)
            self.find(j, ("exception", s), {"kind": "exception", "exc": type(e).__name__, "site": s, **extra},
                      f"sync #{j} of {self.hist_str(j)} raised {type(e).__name__}: {e} at {s}", crash)
            return False
        if fs_log is not None:
            fs_log.extend(fs.log)
        got = [p for p in observe(w.dir) if p != "auto.conf"]
        want = w.changed(prev, self.hdrs[j])
        for p in sorted(set(want) - set(got)):
            cl = w.classify(p, pver, ver, prev, self.hdrs[j])
            site = "core.py:_load_old_vals" if cl["tree_change"] == "option_removed" else "core.py:sync_deps"
            self.find(j, ("changed_not_touched", p), {"kind": "changed_not_touched", "site": site, **cl, **extra},
                      f"sync #{j} of {self.hist_str(j)}: {want[p]} changed ({cl['value_change']}, {cl['tree_change']}) but {p} was not touched", crash)
        for p in sorted(set(got) - set(want)):
            cl = w.classify(p, pver, ver, prev, self.hdrs[j])
            self.find(j, ("unchanged_touched", p), {"kind": "unchanged_touched", "site": "core.py:sync_deps", **cl, **extra},
                      f"sync #{j} of {self.hist_str(j)}: {p} was touched although its option did not change", crash)
        if crash is None:
            if want:
                self.r.outcome(("free", tuple(sorted(want)), tuple(got)))
            self.post_main[j] = faultfs.tree_state(w.dir)
        ok = self.repeat(j, crash, phase)
        if crash is None and ok:
            self.post_rep[j] = faultfs.tree_state(w.dir)
        return ok

    def repeat(self, j: int, crash: Optional[dict], phase: str) -> bool:
        """immediately repeated sync: no mutating operation, nothing touched, auto.conf's mtime and inode kept"""
        w = self.w
        ver, cfg = self.h[j]
        extra = {"phase": phase}
        if crash is not None:
            extra["crash_at"] = crash["class"]
        ac = os.path.join(w.dir, "auto.conf")
        ino = os.stat(ac).st_ino if os.path.exists(ac) else None
        try:
            with faultfs.FaultFS(w.dir) as fs:
                w.sync(ver, cfg)
        except Exception as e:  # noqa: BLE001
            s = site_of(e)
            self.find(j, ("exception_repeat", s), {"kind": "exception", "exc": type(e).__name__, "site": s, "in": "repeated_sync", **extra},
                      f"repeated sync #{j} of {self.hist_str(j)} raised {type(e).__name__}: {e} at {s}", crash)
            return False
        t = observe(w.dir)
        ino2 = os.stat(ac).st_ino if os.path.exists(ac) else None
        self.r.count("repeat_syncs")
        if t or fs.log or ino != ino2:
            what = sorted({"auto.conf" if p == "auto.conf" else "cdep" for p in t} | {o["op"] + ":" + ("auto.conf" if o["path"] == "auto.conf" else "other") for o in fs.log})
            self.find(j, ("repeat_touches", tuple(t)), {"kind": "repeat_sync_touches", "site": "core.py:sync_deps", "what": "+".join(what), **extra},
                      f"immediately repeated sync #{j} of {self.hist_str(j)} touched {t} (operations {[(o['op'], o['path']) for o in fs.log]})", crash)
        return True

    # ---- crash-free run
    def crash_free(self) -> None:
        w = self.w
        faultfs.restore_state(w.dir, {})
        for j in range(len(self.h)):
            self.pre.append(faultfs.tree_state(w.dir))
            log: List[dict] = []
            ok = self.observed_sync(j, None, "crash_free", log)
            self.logs.append(log)
            self.autoconf.append(read_autoconf(w.dir))
            if not ok:
                self.ok_upto = j
                return
        self.r.evals += 1

    # ---- one crash point of sync i
    def crash_at(self, i: int, point: Tuple[int, Optional[int]], alphabet: Optional[list] = None) -> None:
        w, r = self.w, self.r
        ver, cfg = self.h[i]
        pver, prev = self.prev_of(i)
        dry = self.logs[i]
        op = dict(dry[point[0]])
        if op["op"] == "write":
            op["_lb"] = [c for c in op["cuts"] if c and _is_line_boundary(self.autoconf[i], c)]
        crash = {"sync": i, "point": [point[0], point[1]], "class": crash_class(op, point[1])}
        extra = {"phase": "after_crash", "crash_at": crash["class"]}
        faultfs.restore_state(w.dir, self.pre[i], EPOCH_NS)
        observe(w.dir)  # (no-op unless an earlier step ended in an exception before its observation)
        with faultfs.FaultFS(w.dir, crash=point) as fs:
            try:
                w.sync(ver, cfg)
            except faultfs.Crash:
                pass
            except Exception as e:  # noqa: BLE001 -- cannot happen before the crash if the run is deterministic
                raise RuntimeError(f"crashed run raised {e!r} before its crash point") from e
        if not fs.crashed or not faultfs.same_prefix(dry, fs.log) or len(fs.log) != point[0] + 1:
            raise RuntimeError(f"crashed run diverged from the dry run: {fs.log} vs {dry} at {point}")
        r.evals += 1
        r.count("crash_points")
        if point[1] is not None:
            r.count("write_cuts")
        r.count("crash@" + crash["class"])
        t1 = [p for p in observe(w.dir) if p != "auto.conf"]
        # rerun of the same sync on a fresh instance
        try:
            w.sync(ver, cfg)
        except Exception as e:  # noqa: BLE001 -- observation: the rerun must complete
            s = site_of(e)
            self.find(i, ("exception_rerun", s), {"kind": "exception", "exc": type(e).__name__, "site": s, "in": "rerun_after_crash", **extra},
                      f"rerun of sync #{i} of {self.hist_str(i)} after a crash at {crash['class']} {point} raised {type(e).__name__}: {e} at {s}", crash)
            return
        t2 = [p for p in observe(w.dir) if p != "auto.conf"]
        want = w.changed(prev, self.hdrs[i])
        union = set(t1) | set(t2)
        r.outcome(("crash", crash["class"], tuple(t1), tuple(t2), tuple(sorted(want))))
        for p in sorted(set(want) - union):
            cl = w.classify(p, pver, ver, prev, self.hdrs[i])
            site = "core.py:_load_old_vals" if cl["tree_change"] == "option_removed" else "core.py:sync_deps"
            self.find(i, ("changed_not_touched", p), {"kind": "changed_not_touched", "site": site, **cl, **extra},
                      f"sync #{i} of {self.hist_str(i)} crashed at {crash['class']} {point} and was rerun: {want[p]} changed since the last completed sync "
                      f"({cl['value_change']}, {cl['tree_change']}) but {p} was touched neither by the crashed run {t1} nor by the rerun {t2}", crash)
        if read_autoconf(w.dir) != self.autoconf[i]:
            self.find(i, ("rerun_autoconf",), {"kind": "rerun_leaves_other_autoconf", "site": "core.py:_write_old_vals", **extra},
                      f"rerun of sync #{i} of {self.hist_str(i)} after a crash at {crash['class']} {point} left auto.conf {read_autoconf(w.dir)!r}, crash-free run {self.autoconf[i]!r}", crash)
        state = faultfs.tree_state(w.dir)
        if i in self.post_rep and state == self.post_main.get(i):
            r.count("repeat_merged_with_crash_free_state")
        else:
            r.count("repeat_after_rerun_executed")
            if not self.repeat(i, crash, "after_crash"):
                return
            state = faultfs.tree_state(w.dir)
        if i + 1 >= min(len(self.h), self.ok_upto):
            return
        if i in self.post_rep and state == self.post_rep[i]:
            r.count("continuation_merged_with_crash_free_state")
            return
        if alphabet is None:
            r.count("continuation_executed")
            for j in range(i + 1, min(len(self.h), self.ok_upto)):
                r.count("continuation_syncs")
                if not self.observed_sync(j, crash, "after_recovery"):
                    return
            return
        # This item represents ALL histories with the prefix h[:i+1]; the recovered state is not the crash-free one, so the
        # continuation is executed for every suffix over the alphabet (findings already made by a suffix's own crash-free
        # run are dropped through that sibling's free_keys).
        for suffix in itertools.product(alphabet, repeat=len(self.h) - i - 1):
            key = tuple((v, tuple(sorted(c.items()))) for v, c in suffix)
            sib = self.siblings.get(key)
            if sib is None:
                sib = Run(w, self.h[: i + 1] + list(suffix), common.Result())
                sib.crash_free()
                sib.r = r
                if len(self.siblings) < 2000:
                    self.siblings[key] = sib
            faultfs.restore_state(w.dir, state, EPOCH_NS)
            observe(w.dir)
            r.count("continuation_executed")
            r.evals += 1
            for j in range(i + 1, min(len(sib.h), sib.ok_upto)):
                r.count("continuation_syncs")
                if not sib.observed_sync(j, crash, "after_recovery"):
                    break

    def all_crashes(self, only: Optional[dict] = None, alphabet: Optional[list] = None) -> None:
        """alphabet given (explorer): the crash points of sync i are executed only by the history whose suffix after i is
        alphabet[0] repeated -- the representative of all histories sharing h[:i+1] (a crash in sync i and its recovery do
        not depend on later states) -- and a recovered state that differs from the crash-free one fans out over all suffixes.
        alphabet None (replay of one case): this history only."""
        for i in range(min(len(self.h), self.ok_upto)):
            if only is None and alphabet is not None and any(s != alphabet[0] for s in self.h[i + 1 :]):
                self.r.count("syncs_covered_by_prefix_representative")
                continue
            self.r.count("syncs_crash_enumerated")
            for point in faultfs.crash_points(self.logs[i]):
                if only is not None and (only["sync"] != i or tuple(only["point"]) != point):
                    continue
                self.crash_at(i, point, alphabet if only is None else None)


def _is_line_boundary(data: Optional[bytes], c: int) -> bool:
    return bool(data) and 0 < c <= len(data) and data[c - 1 : c] == b"\n"


# --------------------------------------------------------------------------------------------------
# sessions: ONE instance runs several syncs; dependency directories are intact / emptied / removed / new between them
# --------------------------------------------------------------------------------------------------

EVENTS = ("keep", "rm_autoconf", "empty", "rmtree")


def step_alphabet(exists: Tuple[bool, bool], insts: List[Tuple[str, Optional[str]]], cfgs: List[int]) -> List[dict]:
    """every step after the first: (same | new instance of a tree version) x (target directory, what happened to it since
    the last sync: an existing directory is kept / loses auto.conf / is emptied / is removed, a directory that does not
    exist can only be new) x configuration"""
    out = []
    for inst, ver in insts:
        for d in (0, 1):
            for ev in EVENTS if exists[d] else ("keep",):
                for c in cfgs:
                    out.append({"inst": inst, "ver": ver, "cfg": c, "dir": d, "event": ev})
    return out


def session_prefixes(vers: List[str], cfgs: List[int]) -> List[List[dict]]:
    """all (first step, second step) pairs: the first step is a new instance syncing into the (new) directory 0"""
    insts = [("same", None)] + [("new", v) for v in vers]
    out = []
    for v in vers:
        for c in cfgs:
            first = {"inst": "new", "ver": v, "cfg": c, "dir": 0, "event": "keep"}
            for st in step_alphabet((True, False), insts, cfgs):
                out.append([first, st])
    return out


def session_suffixes(prefix: List[dict], length: int, vers: List[str], cfgs: List[int]) -> List[List[dict]]:
    insts = [("same", None)] + [("new", v) for v in vers]

    def rec(steps: List[dict]) -> List[List[dict]]:
        if len(steps) == length:
            return [steps]
        exists = (True, any(s["dir"] == 1 for s in steps))
        out: List[List[dict]] = []
        for st in step_alphabet(exists, insts, cfgs):
            out.extend(rec(steps + [st]))
        return out

    return rec(list(prefix))


def apply_event(d: str, ev: str) -> str:
    """performs the event on directory d (outside the interposed region); returns the state the sync finds"""
    import shutil

    if not os.path.isdir(d):
        return "new"
    if ev == "keep":
        return "intact"
    if ev == "rm_autoconf":
        try:
            os.unlink(os.path.join(d, "auto.conf"))
        except FileNotFoundError:
            pass
        return "autoconf_removed"
    if ev == "empty":
        for name in sorted(os.listdir(d)):
            p = os.path.join(d, name)
            if os.path.isdir(p) and not os.path.islink(p):
                shutil.rmtree(p)
            else:
                os.unlink(p)
        return "emptied"
    if ev == "rmtree":
        shutil.rmtree(d)
        return "removed"
    raise ValueError(ev)


class Session:
    """steps: [{"inst": "new"|"same", "ver": tree version of a new instance, "cfg": assignment dict, "dir": 0|1, "event": ...}]

    Reference per step: recorded = #define map of the last completed sync INTO THE TARGET DIRECTORY, None once its auto.conf
    is gone (removed / emptied / auto.conf deleted) or if the directory is new; the touched .cdep set of the step must be
    exactly World.changed(recorded, current), whatever the instance synced before -- i.e. what a fresh instance syncing
    into that directory state touches (the steps with inst == "new" are those fresh instances, judged by the same
    reference).  A step that repeats the previous step (same directory, kept, same tree version and assignment) is an
    immediately repeated sync: no mutating operation, nothing touched, auto.conf's inode kept.  The current #define map
    comes from a twin instance taken through the same assignments (World.header_seq), never from the observed one."""

    def __init__(self, w: World, steps: List[dict], r: common.Result):
        self.w, self.steps, self.r = w, steps, r

    def case(self, upto: int) -> dict:
        vers = sorted({s["ver"] for s in self.steps[: upto + 1] if s["inst"] == "new"})
        return {
            "kind": "session",
            "versions": {v: self.w.versions[v] for v in vers},
            "aliases": {a: list(t) for a, t in sorted(self.w.aliases.items())},
            "rename_files": list(self.w.rename_files),
            "steps": [dict(s) for s in self.steps[: upto + 1]],
        }

    def describe(self, upto: int) -> str:
        return " ; ".join(
            f"[{'new ' + s['ver'] if s['inst'] == 'new' else 'same'} instance {s['cfg']} -> d{s['dir']}{'' if s['event'] == 'keep' else ' after ' + s['event']}]"
            for s in self.steps[: upto + 1]
        )

    def run(self) -> None:
        import shutil

        w, r = self.w, self.r
        root = w.sess_root
        if os.path.lexists(root):
            shutil.rmtree(root)
        os.mkdir(root)
        inst = None
        ver: Optional[str] = None
        seq: List[Dict[str, str]] = []  # assignments the current instance went through
        n_inst_syncs = 0
        rec: Dict[int, Optional[tuple]] = {0: None, 1: None}  # dir -> (version, #define map) of the last completed sync
        last: Optional[tuple] = None  # (dir, version, assignment) of the previous step
        for j, st in enumerate(self.steps):
            d = os.path.join(root, f"d{st['dir']}")
            dstate = apply_event(d, st["event"])
            if dstate != "intact":
                rec[st["dir"]] = None
            if st["inst"] == "new":
                ver, seq, n_inst_syncs = st["ver"], [], 0
                inst = w.bare(ver)
            assert inst is not None and ver is not None
            cfg = dict(st["cfg"])
            w.move(inst.k, seq[-1] if seq else {}, cfg)
            seq.append(cfg)
            cur = w.header_seq(ver, seq)
            pver, prev = rec[st["dir"]] if rec[st["dir"]] is not None else (None, None)
            extra = {"phase": "session", "instance": "fresh" if n_inst_syncs == 0 else "synced_before", "dir_state": dstate}
            is_repeat = dstate == "intact" and last == (st["dir"], ver, sorted(cfg.items()))
            ac = os.path.join(d, "auto.conf")
            ino = os.stat(ac).st_ino if os.path.exists(ac) else None
            try:
                with faultfs.FaultFS(root) as fs:
                    inst.k.sync_deps(d)
            except Exception as e:  # noqa: BLE001 -- observation
                s = site_of(e)
                r.violation({"kind": "exception", "exc": type(e).__name__, "site": s, **extra},
                            f"sync #{j} of session {self.describe(j)} raised {type(e).__name__}: {e} at {s}", self.case(j))
                return
            n_inst_syncs += 1
            r.count("session_syncs")
            touched = observe(d)
            got = [p for p in touched if p != "auto.conf"]
            want = w.changed(prev, cur)
            for p in sorted(set(want) - set(got)):
                cl = w.classify(p, pver, ver, prev, cur)
                r.violation({"kind": "changed_not_touched", "site": "core.py:sync_deps", **cl, **extra},
                            f"sync #{j} of session {self.describe(j)}: {want[p]} differs from what the last completed sync into that directory recorded "
                            f"({cl['value_change']}, {cl['tree_change']}; directory {dstate}) but {p} was not touched (touched: {got})", self.case(j))
            for p in sorted(set(got) - set(want)):
                cl = w.classify(p, pver, ver, prev, cur)
                r.violation({"kind": "unchanged_touched", "site": "core.py:sync_deps", **cl, **extra},
                            f"sync #{j} of session {self.describe(j)}: {p} was touched although its option did not change (directory {dstate})", self.case(j))
            if is_repeat:
                r.count("session_repeat_syncs")
                ino2 = os.stat(ac).st_ino if os.path.exists(ac) else None
                if touched or fs.log or ino != ino2:
                    what = sorted({"auto.conf" if p == "auto.conf" else "cdep" for p in touched} | {o["op"] + ":" + ("auto.conf" if o["path"].endswith("auto.conf") else "other") for o in fs.log})
                    r.violation({"kind": "repeat_sync_touches", "site": "core.py:sync_deps", "what": "+".join(what), **extra},
                                f"immediately repeated sync #{j} of session {self.describe(j)} touched {touched} (operations {[(o['op'], o['path']) for o in fs.log]})", self.case(j))
            if want or dstate != "intact":
                r.outcome(("session", extra["instance"], dstate, tuple(sorted(want)), tuple(got)))
            rec[st["dir"]] = (ver, cur)
            last = (st["dir"], ver, sorted(cfg.items()))
        r.evals += 1


# --------------------------------------------------------------------------------------------------
# rename tables: several aliases per option, deprecated names mapped more than once (re-targeted / repeated), several files
# --------------------------------------------------------------------------------------------------

TABLE_OLD = ("OLDA", "OLD_B", "OLDC")
# bool, bool inverted, int, string with the text n -- all removed by tree "rm_alias"
TABLE_TARGETS = (("NEWP", False), ("NEWP", True), ("M", False), ("T", False))
# fresh instance per sync: first sync (T = "n" appears); NEWP appears; M changes; all targets are removed from the tree; M comes back with
# another value and T comes back as "n"
TABLE_HISTORY = [("base", {}), ("base", {"NEWP": "y"}), ("base", {"NEWP": "y", "M": "9"}), ("rm_alias", {}), ("base", {"M": "9"})]


# Name SHAPES.  The abstract deprecated names TABLE_OLD[i] / target names are replaced by concrete ones.  A shape is a class of
# names on which a textual transformation of a name (deleting / splitting at / stripping repeatedly the text of the config prefix)
# is NOT the identity, and whose three members differ from each other exactly by such a transformation, so that a wrongly
# transformed name is at once the name of another alias of the table (of another target, if the lines say so).
OLD_SHAPES = {
    "plain": ("OLDA", "OLD_B", "OLDC"),
    # prefix text inside the name; the name left when that occurrence is deleted; the prefix doubled at the start of that name
    # (rename line CONFIG_CONFIG_OLD_A ...)
    "inner_prefix": ("OLD_CONFIG_A", "OLD_A", "CONFIG_OLD_A"),
    # prefix text twice (adjacent); once; not at all -- each is the previous one with one occurrence deleted
    "prefix_twice": ("X_CONFIG_CONFIG_B", "X_CONFIG_B", "X_B"),
    # prefix text at the start AND inside; two separated inner occurrences; what is left of both when every occurrence is deleted
    "prefix_start_and_inner": ("CONFIG_Y_CONFIG_C", "Y_CONFIG_Z_CONFIG_C", "Y_Z_C"),
}
TARGET_SHAPES = {
    "plain": {},
    # option names: prefix text inside / doubled at the start (auto.conf line CONFIG_CONFIG_M=2) / twice inside
    "prefix_in_option_name": {"NEWP": "NEW_CONFIG_P", "M": "CONFIG_M", "T": "T_CONFIG_CONFIG_T"},
}


def table_shapes(lines) -> List[Tuple[str, str]]:
    """(shape of the deprecated names, shape of the target names) pairs a table is run under: all of them"""
    return [(o, t) for o in OLD_SHAPES for t in TARGET_SHAPES]


def shaped(lines: List[Tuple[str, str, bool]], shape: Tuple[str, str]) -> Tuple[List[Tuple[str, str, bool]], Dict[str, str]]:
    """the table with concrete names, and the naming of the tree's options"""
    olds, naming = OLD_SHAPES[shape[0]], TARGET_SHAPES[shape[1]]
    return [(olds[TABLE_OLD.index(o)], naming.get(t, t), bool(i)) for o, t, i in lines], naming


def _growth_strings(n: int, k: int) -> List[Tuple[int, ...]]:
    """restricted growth strings of length n over at most k symbols (deprecated names up to renaming)"""
    out: List[Tuple[int, ...]] = []

    def rec(pre: Tuple[int, ...], mx: int) -> None:
        if len(pre) == n:
            out.append(pre)
            return
        for x in range(min(mx + 1, k - 1) + 1):
            rec(pre + (x,), max(mx, x))

    rec((), -1)
    return out


def rename_tables(max_lines: int) -> List[List[Tuple[str, str, bool]]]:
    """every sequence of 1..max_lines rename lines (deprecated name, target, inverted) over TABLE_OLD x TABLE_TARGETS, the
    deprecated names in order of first use"""
    out = []
    for n in range(1, max_lines + 1):
        for g in _growth_strings(n, len(TABLE_OLD)):
            for ts in itertools.product(TABLE_TARGETS, repeat=n):
                out.append([(TABLE_OLD[o], t, inv) for o, (t, inv) in zip(g, ts)])
    return out


def table_line(line: Tuple[str, str, bool]) -> str:
    old, new, inv = line
    return f"CONFIG_{old} {'!' if inv else ''}CONFIG_{new}\n"


def effective_aliases(lines: List[Tuple[str, str, bool]]) -> Dict[str, Tuple[str, bool]]:
    """documented: 'the last mapping is used' for a deprecated name that occurs more than once; other names are unaffected"""
    out: Dict[str, Tuple[str, bool]] = {}
    for old, new, inv in lines:
        out[old] = (new, inv)
    return out


def table_class(lines: List[Tuple[str, str, bool]]) -> str:
    seen: Dict[str, Tuple[str, bool]] = {}
    kinds = set()
    for old, new, inv in lines:
        if old in seen:
            kinds.add("repeated_line" if seen[old] == (new, inv) else "inversion_changed" if seen[old][0] == new else "retargeted")
        seen[old] = (new, inv)
    return "+".join(sorted(kinds)) if kinds else "unique_names"


def table_splits(lines: List[Tuple[str, str, bool]]) -> List[int]:
    """one rename file, and -- if a deprecated name occurs again -- a second file starting at its first re-mapping"""
    seen = set()
    for i, (old, _, _) in enumerate(lines):
        if old in seen:
            return [0, i]
        seen.add(old)
    return [0]


def run_table(lines: List[Tuple[str, str, bool]], split: int, r: common.Result, shape: Tuple[str, str] = ("plain", "plain")) -> "Run":
    """lines: abstract table (names of TABLE_OLD / TABLE_TARGETS); shape: the concrete names it is run with"""
    cls = table_class([(o, t, bool(i)) for o, t, i in lines])
    lines, naming = shaped(lines, shape)
    texts = ["".join(table_line(l) for l in lines)] if not split else ["".join(table_line(l) for l in lines[:split]), "".join(table_line(l) for l in lines[split:])]
    vers = sorted({v for v, _ in TABLE_HISTORY})
    w = World({v: tree_files(v, texts, naming) for v in vers}, effective_aliases(lines), rename_file_names(len(texts)))
    extra = {"rename_table": cls, "rename_files": len(texts)}
    if tuple(shape) != ("plain", "plain"):
        extra["alias_names"], extra["target_names"] = shape[0], shape[1]
    run = Run(w, [(v, {naming.get(n, n): x for n, x in c.items()}) for v, c in TABLE_HISTORY], r, extra)
    run.crash_free()
    r.count("rename_table_runs")
    return run


# --------------------------------------------------------------------------------------------------

_worlds: Dict[str, World] = {}


def world(name: str = "main") -> World:
    if name not in _worlds:
        renames, aliases = WORLD_RENAMES[name]
        _worlds[name] = World({v: tree_files(v, [renames]) for v in WORLD_VERSIONS[name]}, aliases)
    return _worlds[name]


def run_item(item) -> common.Result:
    r = common.Result()
    r.programs = 1
    kind = item.get("kind", "history")
    if kind == "sessions":
        vers, cfgs, length, wname = SESSIONS[item["space"][0]][item["space"][1]]
        w = world(wname)
        sample = None
        for steps in session_suffixes(item["prefix"], length, vers, cfgs):
            steps = [dict(s, cfg=CONFIGS[wname][s["cfg"]]) for s in steps]
            Session(w, steps, r).run()
            sample = steps
        r.sample = {"one_instance_session": sample, "rename_table": WORLD_RENAMES[wname][0]}
        return r
    if kind == "table":
        lines = [tuple(l) for l in item["lines"]]
        shape = tuple(item.get("shape", ("plain", "plain")))
        for split in table_splits(lines):
            run = run_table(lines, split, r, shape)
        r.sample = {
            "name_shapes": list(shape),
            "rename_files": [run.w.versions["base"][f] for f in run.w.rename_files],
            "effective_aliases": {a: list(t) for a, t in sorted(run.w.aliases.items())},
            "history": [[v, cfg] for v, cfg in run.h],
        }
        return r
    wname, states = ALPHABETS[item["alphabet"]]
    w = world(wname)
    hist = [(v, CONFIGS[wname][c]) for v, c in item["history"]]
    run = Run(w, hist, r)
    run.crash_free()
    run.all_crashes(alphabet=[(v, CONFIGS[wname][c]) for v, c in states])
    r.sample = {
        "history": [[v, cfg] for v, cfg in hist],
        "tree_of_first_state": w.versions[hist[0][0]]["Kconfig"],
        "rename_table": WORLD_RENAMES[wname][0],
        "operations_of_first_sync": [(o["op"], o["path"]) for o in run.logs[0]] if run.logs else [],
        "crash_points_per_sync": [len(faultfs.crash_points(l)) for l in run.logs],
    }
    return r


def replay(case) -> List[dict]:
    r = common.Result()
    w = World(case["versions"], case["aliases"], case.get("rename_files"))
    if case.get("kind") == "session":
        Session(w, [dict(s) for s in case["steps"]], r).run()
        return r.viols
    hist = [(v, dict(cfg)) for v, cfg in case["history"]]
    run = Run(w, hist, r, case.get("sig_extra"))
    run.crash_free()
    if case.get("crash"):
        run.all_crashes(only=case["crash"])
    return r.viols

"""C03 -- incremental re-evaluation equals evaluation from scratch.

Explicit-state search in which READS ARE EVENTS: W-operations (set / unset / reset-to-default / load / merge) and
R-operations (read the memoised fields of one option / one choice selection) are interleaved in every order up to the
depth bound; the canonical key contains the cache-fill bits, so "read before the change" and "not read" are different
states.  Programs are systematic over the KINDS of dependency edge (every way option X can mention option Y) and all
2-hop chains of the bool-producing kinds.

Oracles, after every transition, on twin instances built by replaying the same history:
  (1) observation through the API == observation after Kconfig._invalidate_all()
  (2) (histories without stale default-marked loads) == a fresh instance given only the final user values and picks,
      applied in definition order and in reverse order
  (3) observations read in forward and in reverse order are identical
"""

from __future__ import annotations

import itertools
from typing import Any, Dict, Iterator, List, Optional, Tuple

from .. import common, explore, impl, kgen
from ..kgen import And, Cfg, Choice, If, L, Menu, Not, Or, Program, Rel, S

ID = "C03"
LEVEL = "model_checking"
RULE = (
    "explicit-state BFS per program over W-ops (set/unset/reset/load/merge) and R-ops (read one option / one choice) up to "
    "the depth bound; states merged on (user state, cache-fill bits); programs = one per dependency-edge kind x type plus all "
    "2-hop chains. distinct_nontrivial counts distinct (program, canonical state) pairs in which at least one memoised field "
    "was filled before the last W-op (i.e. invalidation had something to do)."
)
ASSUMPTIONS = [
    "final user state for the fresh-instance comparison is read from Symbol._user_value / Choice._user_selection of the explored instance",
    "the fresh-instance comparison is skipped for histories containing a load with stale default-marked entries (as the statement allows)",
]


def ybool(name="Y") -> Cfg:
    return Cfg(name, "bool", prompt=name.lower())


def edge_programs() -> Iterator[Dict[str, Any]]:
    """kind, program, setters {name: [values]}, extra load texts"""

    def P(kind, kids, setters, loads=()):
        return {"kind": kind, "prog": Program(children=kids), "setters": setters, "loads": list(loads)}

    YB = {"Y": ["y", "n"]}
    # --- bool Y -> X
    yield P("prompt_cond", [ybool(), Cfg("X", "bool", prompt="x", prompt_cond=S("Y"), defaults=[(L("n"), None)])], {**YB, "X": ["y"]})
    yield P("prompt_cond_int", [ybool(), Cfg("X", "int", prompt="x", prompt_cond=S("Y"), defaults=[(L("5"), None)])], {**YB, "X": ["9"]},
            loads=["# default:\nCONFIG_X=6\n"])
    yield P("depends", [ybool(), Cfg("X", "bool", prompt="x", depends=[S("Y")], defaults=[(L("y"), None)])], {**YB, "X": ["n"]})
    yield P("depends_str", [ybool(), Cfg("X", "string", prompt="x", depends=[S("Y")], defaults=[(L('"d"'), None)])], {**YB, "X": ["u"]},
            loads=['# default:\nCONFIG_X="stale"\n'])
    yield P("default_value", [ybool(), Cfg("X", "bool", prompt="x", defaults=[(S("Y"), None)])], {**YB, "X": ["n"]})
    yield P("default_value_promptless", [ybool(), Cfg("X", "bool", defaults=[(S("Y"), None)])], YB)
    yield P("default_cond_bool", [ybool(), Cfg("X", "bool", prompt="x", defaults=[(L("y"), S("Y"))])], {**YB, "X": ["n"]})
    yield P("default_cond_int", [ybool(), Cfg("X", "int", prompt="x", defaults=[(L("7"), S("Y")), (L("3"), None)])], {**YB, "X": ["4"]},
            loads=["# default:\nCONFIG_X=9\n"])
    yield P("default_cond_not", [ybool(), Cfg("X", "string", defaults=[(L('"a"'), Not(S("Y"))), (L('"b"'), None)])], YB)
    yield P("range_cond", [ybool(), Cfg("X", "int", prompt="x", ranges=[(L("1"), L("5"), S("Y"))], defaults=[(L("3"), None)])], {**YB, "X": ["9"]})
    yield P("range_cond_hex", [ybool(), Cfg("X", "hex", prompt="x", ranges=[(L("0x1"), L("0x5"), S("Y"))], defaults=[(L("0x3"), None)])], {**YB, "X": ["0x9"]})
    yield P("range_cond_float", [ybool(), Cfg("X", "float", prompt="x", ranges=[(L("1.0"), L("5.0"), S("Y"))], defaults=[(L("3.0"), None)])], {**YB, "X": ["9.5"]})
    y = ybool(); y.selects.append(("X", None))
    yield P("select", [y, Cfg("X", "bool", prompt="x")], {**YB, "X": ["n", "y"]})
    y = ybool(); y.selects.append(("X", S("C")))
    yield P("select_cond", [ybool("C"), y, Cfg("X", "bool", prompt="x")], {"C": ["y", "n"], "Y": ["y"]})
    y = ybool(); y.implies.append(("X", None))
    yield P("imply", [y, Cfg("X", "bool", prompt="x")], {**YB, "X": ["n"]})
    y = ybool(); y.implies.append(("X", None))
    yield P("imply_directdep", [ybool("D"), y, Cfg("X", "bool", depends=[S("D")])], {"D": ["y", "n"], "Y": ["y"]})
    y = ybool(); y.implies.append(("X", S("C")))
    yield P("imply_cond", [ybool("C"), y, Cfg("X", "bool", prompt="x")], {"C": ["y", "n"], "Y": ["y"]})
    for t, v, d, u in (("int", "7", "3", "4"), ("string", '"f"', '"d"', "u"), ("hex", "0x7", "0x3", "0x4"), ("float", "7.5", "3.5", "4.5")):
        y = ybool(); y.sets.append(("X", L(v), None))
        yield P(f"set_source_{t}", [y, Cfg("X", t, prompt="x", defaults=[(L(d), None)])], {**YB, "X": [u]})
        y = ybool(); y.wsets.append(("X", L(v), None))
        yield P(f"wset_source_{t}", [y, Cfg("X", t, prompt="x", defaults=[(L(d), None)])], {**YB, "X": [u]})
    y = ybool(); y.sets.append(("X", L("7"), S("C")))
    yield P("set_cond", [ybool("C"), y, Cfg("X", "int", prompt="x", defaults=[(L("3"), None)])], {"C": ["y", "n"], "Y": ["y"]})
    y = ybool(); y.wsets.append(("X", L("7"), S("C")))
    yield P("wset_cond", [ybool("C"), y, Cfg("X", "int", prompt="x", defaults=[(L("3"), None)])], {"C": ["y", "n"], "Y": ["y"]})
    # targets that have NOTHING of their own but the dependency (no prompt / default / range: the dependency reaches the
    # option only through `set default` / `set` / imply evaluating direct_dep)
    for t, v in (("int", "7"), ("string", '"w"'), ("hex", "0x7")):
        y = ybool(); y.wsets.append(("X", L(v), None))
        yield P(f"wset_directdep_bare_{t}", [ybool("D"), y, Cfg("X", t, depends=[S("D")]), Cfg("Z", t, prompt="z", defaults=[(S("X"), None)])], {"D": ["n", "y"], "Y": ["y"]})
        y = ybool(); y.sets.append(("X", L(v), None))
        yield P(f"set_directdep_bare_{t}", [ybool("D"), y, Cfg("X", t, depends=[S("D")]), Cfg("Z", t, prompt="z", defaults=[(S("X"), None)])], {"D": ["n", "y"], "Y": ["y"]})
    y = ybool(); y.implies.append(("X", None))
    yield P("imply_directdep_bare", [ybool("D"), y, Cfg("X", "bool", depends=[S("D")]), Cfg("Z", "bool", prompt="z", defaults=[(S("X"), None)])], {"D": ["n", "y"], "Y": ["y"]})
    y = ybool(); y.wsets.append(("X", L("7"), None))
    yield P("wset_directdep", [ybool("D"), y, Cfg("X", "int", prompt="x", depends=[S("D")], defaults=[(L("3"), None)])], {"D": ["y", "n"], "Y": ["y"]})
    # value symbol of set / set default
    src = ybool("SRC"); src.sets.append(("X", S("V"), None))
    yield P("set_value_symbol", [Cfg("V", "string", prompt="v", defaults=[(L('"v0"'), None)]), src, Cfg("X", "string", prompt="x", defaults=[(L('"d"'), None)])],
            {"V": ["v1", "v2"], "SRC": ["y"]})
    src = ybool("SRC"); src.wsets.append(("X", S("V"), None))
    yield P("wset_value_symbol", [Cfg("V", "string", prompt="v", defaults=[(L('"v0"'), None)]), src, Cfg("X", "string", prompt="x", defaults=[(L('"d"'), None)])],
            {"V": ["v1", "v2"], "SRC": ["y"]})
    # two sets on one target, the second literal not valid for the type (documented syntax `set X=<symbol>`)
    src = ybool("SRC"); src.sets.append(("X", L("7"), S("C"))); src.sets.append(("X", S("V"), None))
    yield P("set_then_symbol_valued_set_int", [ybool("C"), Cfg("V", "int", prompt="v", defaults=[(L("1"), None)]), src, Cfg("X", "int", prompt="x", defaults=[(L("3"), None)])],
            {"C": ["y", "n"], "SRC": ["y"]})
    # choices
    yield P("choice_prompt_cond", [ybool(), Choice(prompt="c", prompt_cond=S("Y"), children=[Cfg("X", "bool", prompt="x"), Cfg("X2", "bool", prompt="x2")])],
            {**YB, "X2": ["y"]})
    yield P("choice_depends", [ybool(), Choice(prompt="c", depends=[S("Y")], children=[Cfg("X", "bool", prompt="x"), Cfg("X2", "bool", prompt="x2")])],
            {**YB, "X2": ["y"]})
    yield P("choice_default_cond", [ybool(), Choice(prompt="c", defaults=[("X2", S("Y"))], children=[Cfg("X", "bool", prompt="x"), Cfg("X2", "bool", prompt="x2")])],
            {**YB, "X": ["y"]}, loads=["# default:\n# CONFIG_X is not set\n# default:\nCONFIG_X2=y\n"])
    yield P("choice_default_cond_last", [ybool(), Choice(prompt="c", defaults=[("X", S("Y")), ("X2", None)], children=[Cfg("X", "bool", prompt="x"), Cfg("X2", "bool", prompt="x2")]),
                                         Cfg("D", "int", defaults=[(L("1"), S("X")), (L("2"), None)])],
            {**YB, "X": ["y"]})
    # the same with a PROMPTED option outside the choice following the selection, and an entry file (written under another
    # default selection) whose marked entries are consistent with each other: only the choice's default has to be injected
    yield P("choice_default_cond_outside_prompted", [ybool(), Choice(prompt="c", defaults=[("X", S("Y")), ("X2", None)], children=[Cfg("X", "bool", prompt="x"), Cfg("X2", "bool", prompt="x2")]),
                                                     Cfg("D", "string", prompt="d", defaults=[(L('"one"'), S("X")), (L('"two"'), S("X2"))]),
                                                     Cfg("U", "bool", prompt="u", defaults=[(L("y"), Rel("=", S("D"), L('"one"')))])],
            {**YB, "X": ["y"], "X2": ["y"]}, loads=['# default:\nCONFIG_X=y\n# default:\n# CONFIG_X2 is not set\n# default:\nCONFIG_D="one"\n# default:\nCONFIG_U=y\n'])
    yield P("member_visibility", [ybool(), Choice(prompt="c", children=[Cfg("X", "bool", prompt="x", prompt_cond=S("Y")), Cfg("X2", "bool", prompt="x2")])],
            {**YB, "X": ["y"], "X2": ["y"]})
    yield P("member_depends", [ybool(), Choice(prompt="c", children=[Cfg("X", "bool", prompt="x", depends=[S("Y")]), Cfg("X2", "bool", prompt="x2")])],
            {**YB, "X": ["y"]})
    yield P("member_as_cond", [Choice(prompt="c", children=[Cfg("Y", "bool", prompt="y"), Cfg("Y2", "bool", prompt="y2")]), Cfg("X", "int", prompt="x", defaults=[(L("1"), S("Y2")), (L("2"), None)])],
            {"Y": ["y"], "Y2": ["y"]})
    yield P("named_choice_twice", [ybool(), Choice(name="CH", prompt="c", children=[Cfg("X", "bool", prompt="x")]),
                                   Choice(name="CH", prompt=None, children=[Cfg("X2", "bool", prompt="x2", prompt_cond=S("Y"))])],
            {**YB, "X2": ["y"], "X": ["y"]})
    # structure
    yield P("menu_visible_if", [ybool(), Menu(visible_if=[S("Y")], children=[Cfg("X", "int", prompt="x", defaults=[(L("3"), None)])])], {**YB, "X": ["4"]})
    yield P("menu_depends", [ybool(), Menu(depends=[S("Y")], children=[Cfg("X", "int", prompt="x", defaults=[(L("3"), None)])])], {**YB, "X": ["4"]})
    yield P("if_block", [ybool(), If(cond=S("Y"), children=[Cfg("X", "string", prompt="x", defaults=[(L('"d"'), None)])])], {**YB, "X": ["u"]})
    # the prompt lives on the SECOND definition (first one: type + default only)
    yield P("multi_def_prompt_second", [Cfg("X", "bool", defaults=[(L("n"), None)]), Cfg("G", "bool", prompt="g", defaults=[(L("y"), None)]), Cfg("X", "bool", prompt="x", depends=[S("G")]),
                                        Cfg("Z", "int", prompt="z", defaults=[(L("3"), S("X")), (L("1"), None)]), Cfg("E", "string", prompt="e", depends=[S("X")], defaults=[(L('"on"'), None)])],
            {"X": ["y", "n"], "G": ["n"]})
    yield P("multi_def", [ybool(), Cfg("X", "int", prompt="x", prompt_cond=S("Y"), defaults=[(L("1"), S("Y"))]), Cfg("X", "int", defaults=[(L("2"), None)])], {**YB, "X": ["5"]})
    # --- typed Y
    yield P("default_sym_int", [Cfg("Y", "int", prompt="y", defaults=[(L("1"), None)]), Cfg("X", "int", prompt="x", defaults=[(S("Y"), None)])], {"Y": ["5", "8"], "X": ["2"]})
    yield P("default_sym_string", [Cfg("Y", "string", prompt="y", defaults=[(L('"a"'), None)]), Cfg("X", "string", defaults=[(S("Y"), None)])], {"Y": ["b", ""]})
    yield P("default_sym_float", [Cfg("Y", "float", prompt="y", defaults=[(L("1.5"), None)]), Cfg("X", "float", defaults=[(S("Y"), None)])], {"Y": ["2.5", "4"]})
    yield P("range_low_sym", [Cfg("Y", "int", prompt="y", defaults=[(L("1"), None)]), Cfg("X", "int", prompt="x", ranges=[(S("Y"), L("9"), None)], defaults=[(L("3"), None)])], {"Y": ["5", "0"], "X": ["2"]})
    yield P("range_high_sym", [Cfg("Y", "int", prompt="y", defaults=[(L("9"), None)]), Cfg("X", "int", prompt="x", ranges=[(L("0"), S("Y"), None)], defaults=[(L("3"), None)])], {"Y": ["2", "7"], "X": ["5"]})
    yield P("range_sym_hex", [Cfg("Y", "hex", prompt="y", defaults=[(L("0x9"), None)]), Cfg("X", "hex", prompt="x", ranges=[(L("0x0"), S("Y"), None)], defaults=[(L("0x3"), None)])], {"Y": ["0x2", "0x7"], "X": ["0x5"]})
    for op in ("=", "!=", "<", ">="):
        yield P(f"rel_dep_{op}", [Cfg("Y", "int", prompt="y", defaults=[(L("1"), None)]), Cfg("X", "bool", prompt="x", depends=[Rel(op, S("Y"), L("3"))], defaults=[(L("y"), None)])], {"Y": ["3", "5"], "X": ["n"]})
    yield P("rel_default_cond_str", [Cfg("Y", "string", prompt="y", defaults=[(L('"a"'), None)]), Cfg("X", "int", defaults=[(L("1"), Rel("=", S("Y"), L('"b"'))), (L("2"), None)])], {"Y": ["b", "c"]})
    yield P("rel_two_syms", [Cfg("Y", "int", prompt="y", defaults=[(L("1"), None)]), Cfg("Z", "int", prompt="z", defaults=[(L("2"), None)]), Cfg("X", "bool", defaults=[(L("y"), Rel("<", S("Y"), S("Z")))])], {"Y": ["5"], "Z": ["9", "0"]})
    y = ybool(); y.sets.append(("X", L("7"), Rel("=", S("N"), L("3"))))
    yield P("set_cond_rel", [Cfg("N", "int", prompt="n", defaults=[(L("1"), None)]), y, Cfg("X", "int", prompt="x", defaults=[(L("3"), None)])], {"N": ["3", "4"], "Y": ["y"]})


BOOL_LINK = ("prompt_cond", "depends", "default_value", "default_cond", "select", "imply", "if_block", "menu_depends", "not_default")


def link(kind: str, src: str, dst: str, prompt: bool) -> List[Any]:
    """AST fragment making bool `dst` depend on bool `src` through one edge kind (src is defined elsewhere)"""
    p = dst.lower() if prompt else None
    if kind == "prompt_cond":
        return [Cfg(dst, "bool", prompt=dst.lower(), prompt_cond=S(src), defaults=[(L("y"), None)])]
    if kind == "depends":
        return [Cfg(dst, "bool", prompt=p, depends=[S(src)], defaults=[(L("y"), None)])]
    if kind == "default_value":
        return [Cfg(dst, "bool", prompt=p, defaults=[(S(src), None)])]
    if kind == "default_cond":
        return [Cfg(dst, "bool", prompt=p, defaults=[(L("y"), S(src))])]
    if kind == "not_default":
        return [Cfg(dst, "bool", prompt=p, defaults=[(L("y"), Not(S(src)))])]
    if kind == "if_block":
        return [If(cond=S(src), children=[Cfg(dst, "bool", prompt=p, defaults=[(L("y"), None)])])]
    if kind == "menu_depends":
        return [Menu(depends=[S(src)], children=[Cfg(dst, "bool", prompt=p, defaults=[(L("y"), None)])])]
    raise ValueError(kind)


def chain_programs() -> Iterator[Dict[str, Any]]:
    for k1, k2 in itertools.product(BOOL_LINK, repeat=2):
        for zprompt in (False, True):
            kids: List[Any] = []
            y = ybool()
            if k1 in ("select", "imply"):
                (y.selects if k1 == "select" else y.implies).append(("Z", None))
                zfrag = [Cfg("Z", "bool", prompt="z" if zprompt else None)]
            else:
                zfrag = link(k1, "Y", "Z", zprompt)
            if k2 in ("select", "imply"):
                # Z is the source of a reverse dependency on X
                zc = [n for n in kgen.walk(zfrag) if n.kind == "cfg"][0]
                (zc.selects if k2 == "select" else zc.implies).append(("X", None))
                xfrag = [Cfg("X", "bool", prompt="x")]
            else:
                xfrag = link(k2, "Z", "X", True)
            kids = [y] + zfrag + xfrag
            setters = {"Y": ["y", "n"]}
            if zprompt:
                setters["Z"] = ["n"]
            yield {"kind": f"chain:{k1}>{k2}{'+zprompt' if zprompt else ''}", "prog": Program(children=kids), "setters": setters, "loads": []}


def all_programs(tier: str) -> List[Dict[str, Any]]:
    progs = list(edge_programs()) + list(chain_programs())
    return progs


def items(tier: str, seed: int):
    depth = 4 if tier == "quick" else 5
    out = []
    for p in all_programs(tier):
        out.append({"kind": p["kind"], "files": kgen.render(p["prog"]), "setters": p["setters"], "loads": p["loads"], "depth": depth, "wdepth": 3})
    return out


def op_menu(item, k) -> List[tuple]:
    ops: List[tuple] = []
    for name, vals in item["setters"].items():
        for v in vals:
            ops.append(("set", name, v))
        ops.append(("unset", name))
        ops.append(("reset", name))
    for i, t in enumerate(item["loads"]):
        ops.append(("load", t, True))
        ops.append(("load", t, False))
    # save the current configuration and load that very file back (self-consistent: no stale entries)
    ops.append(("saveload", True))
    # files the tool itself wrote in another configuration of the same tree (one per settable option, first value)
    for t in item.get("tool_files", []):
        ops.append(("load", t, True))
        ops.append(("load", t, False))  # merged into the current user values: its default-marked entries may then be out of date
    for s in k.unique_defined_syms:
        ops.append(("read", s.name))
    for i, _c in enumerate(k.unique_choices):
        ops.append(("readc", i))
    return ops


def is_w(op) -> bool:
    return op[0] not in ("read", "readc")


def final_user(inst) -> Tuple[List[tuple], List[Optional[str]]]:
    k = inst.k
    vals = [(s.name, s._user_value) for s in k.unique_defined_syms if s._user_value is not None]
    picks = [c._user_selection.name if c._user_selection is not None else None for c in k.unique_choices]
    return vals, picks


def fresh_with(files, vals, picks, reverse: bool):
    inst = impl.Inst(files)
    k = inst.k
    seq = list(vals)
    if reverse:
        seq.reverse()
    pickset = {p for p in picks if p}
    late = [(n, v) for n, v in seq if n in pickset]
    for n, v in seq:
        if n in pickset:
            continue
        k.syms[n].set_value(v)
    for n, v in late:
        k.syms[n].set_value(v)
    # a pick whose member carries no user value y cannot arise through the API; picks are implied by `late`
    return inst


def explore_item(item, r: common.Result, only_history=None):
    files = item["files"]
    kind = item["kind"]
    ptext = files["Kconfig"]
    wdepth = item["wdepth"]
    stale_texts = set(item["loads"])
    if "tool_files" not in item:
        tf = [impl.Inst(files).config_text()]
        for name, vals in item["setters"].items():
            w = impl.Inst(files)
            w.set(name, vals[0])
            t = w.config_text()
            if t not in tf:
                tf.append(t)
        item = dict(item, tool_files=tf)

    def build(h):
        return impl.replay_ops(files, h)

    def enabled(h, st):
        ops = op_menu(item, st.k)
        nw = sum(1 for o in h if is_w(o))
        if nw >= wdepth:
            ops = [o for o in ops if not is_w(o)]
        # a read directly after a read of the same thing adds nothing
        return [o for o in ops if not (h and not is_w(o) and h[-1] == o)]

    def canon(st):
        return (st.user_state(), impl.cache_bits(st), tuple(repr(s.defaults) if getattr(s, "_default_value_injected", False) else 0 for s in st.k.unique_defined_syms))

    def check(h, st):
        r.evals += 1
        case = {"kind": kind, "program": ptext, "files": files, "history": [list(o) for o in h], "item": {k: item[k] for k in ("setters", "loads", "depth", "wdepth")}}
        bits = impl.cache_bits(st)
        # (1) API observation vs. observation after discarding all caches
        obs_api = st.obs()
        ch_api = st.choice_obs()
        t1 = build(h)
        t1.k._invalidate_all()
        obs_inv = t1.obs()
        ch_inv = t1.choice_obs()
        if obs_api != obs_inv or ch_api != ch_inv:
            diff = [n for n in obs_api if obs_api[n] != obs_inv[n]]
            r.violation(
                {"kind": "stale_cache", "edge": kind, "fields": fields_diff(obs_api, obs_inv, diff)},
                f"[{kind}] after {fmt(h)}: cached {dict((n, obs_api[n][:3]) for n in diff)} but recomputed {dict((n, obs_inv[n][:3]) for n in diff)}"
                + (f"; choices {ch_api} vs {ch_inv}" if ch_api != ch_inv else ""),
                case,
            )
        # (3) read order
        t2 = build(h)
        names = [s.name for s in t2.k.unique_defined_syms]
        obs_rev = t2.obs(order=list(reversed(names)))
        if obs_rev != obs_api:
            diff = [n for n in obs_api if obs_api[n] != obs_rev[n]]
            r.violation(
                {"kind": "read_order", "edge": kind, "fields": fields_diff(obs_api, obs_rev, diff)},
                f"[{kind}] after {fmt(h)}: reading in reverse order gives {dict((n, obs_rev[n][:3]) for n in diff)}, forward {dict((n, obs_api[n][:3]) for n in diff)}",
                case,
            )
        # (2) fresh instance with the same final user state
        # (4) reads are pure: the same history without its read operations leads to the same observation
        if any(not is_w(o) for o in h):
            t3 = build(tuple(o for o in h if is_w(o)))
            obs_nr = t3.obs()
            ch_nr = t3.choice_obs()
            if obs_nr != obs_api or ch_nr != ch_api:
                diff = [n for n in obs_api if obs_api[n] != obs_nr[n]]
                r.violation(
                    {"kind": "read_changed_outcome", "edge": kind, "fields": fields_diff(obs_api, obs_nr, diff)},
                    f"[{kind}] after {fmt(h)}: {dict((n, obs_api[n][:3]) for n in diff)}, but without the reads in that history {dict((n, obs_nr[n][:3]) for n in diff)}"
                    + (f"; choices {ch_api} vs {ch_nr}" if ch_api != ch_nr else ""),
                    case,
                )
        stale = any(o[0] == "load" and (o[1] in stale_texts or not o[2]) for o in h)
        if not stale:
            vals, picks = final_user(st)
            for rev in (False, True):
                f = fresh_with(files, vals, picks, rev)
                if [c._user_selection.name if c._user_selection is not None else None for c in f.k.unique_choices] != picks:
                    continue  # final pick not reproducible from user values alone (pick remembered on a member later set to n)
                obs_f = f.obs()
                ch_f = f.choice_obs()
                if obs_f != obs_inv or ch_f != ch_inv:
                    diff = [n for n in obs_f if obs_f[n] != obs_inv[n]]
                    r.violation(
                        {"kind": "fresh_instance", "edge": kind, "fields": fields_diff(obs_inv, obs_f, diff)},
                        f"[{kind}] after {fmt(h)}: fresh instance with user values {vals} (reverse={rev}) gives "
                        f"{dict((n, obs_f[n][:3]) for n in diff)}, explored instance (recomputed) {dict((n, obs_inv[n][:3]) for n in diff)}",
                        case,
                    )
        if h and any(any(b) for b in prev_bits(h)):
            r.outcome((ptext, st.user_state(), bits))

    _pb: Dict[tuple, tuple] = {}

    def prev_bits(h):
        # cache-fill bits just before the last operation
        hp = h[:-1]
        if hp not in _pb:
            _pb.clear()
            _pb[hp] = impl.cache_bits(build(hp))
        return _pb[hp]

    if only_history is not None:
        h = tuple(tuple(o) for o in only_history)
        try:
            check(h, build(h))
        except impl.OpRaised as e:
            r.violation({"kind": "exception", "exc": e.exc_type, "site": e.site, "op": e.op[0]}, f"[{kind}] {fmt(h)}: {e}", {})
        return None
    def on_raise(h, e):
        if not isinstance(e, impl.OpRaised):
            raise e
        r.violation(
            {"kind": "exception", "exc": e.exc_type, "site": e.site, "op": e.op[0]},
            f"[{kind}] {fmt(h)}: {e}",
            {"kind": kind, "program": ptext, "files": files, "history": [list(o) for o in h], "item": {k: item[k] for k in ("setters", "loads", "depth", "wdepth")}},
        )

    st = explore.bfs(build, enabled, canon, check, item["depth"], on_raise=on_raise)
    r.states += st.states
    r.transitions += st.transitions
    return st


def fields_diff(a, b, names) -> str:
    fs = set()
    for n in names:
        for i, f in enumerate(("value", "visibility", "assignable", "config_string", "write_to_conf")):
            if a[n][i] != b[n][i]:
                fs.add(f)
    return "+".join(sorted(fs))


def fmt(h) -> str:
    return " ; ".join("(" + ",".join(map(repr, o)) + ")" for o in h)


def run_item(item) -> common.Result:
    r = common.Result()
    r.programs = 1
    st = explore_item(item, r)
    r.sample = {"edge_kind": item["kind"], "program": item["files"]["Kconfig"], "states": st.states, "transitions": st.transitions, "max_depth": st.max_depth}
    return r


def replay(case) -> List[dict]:
    item = dict(case["item"])
    item["kind"] = case["kind"]
    item["files"] = case["files"]
    r = common.Result()
    explore_item(item, r, only_history=case["history"])
    return r.viols

"""C03 -- incremental re-evaluation equals evaluation from scratch.

Explicit-state search in which READS ARE EVENTS: W-operations (set / unset / reset-to-default / load / merge) and
R-operations (read the memoised fields of one option / one choice selection) are interleaved in every order up to the
depth bound; the canonical key contains the cache-fill bits, so "read before the change" and "not read" are different
states.  Programs are systematic over the KINDS of dependency edge (every way option X can mention option Y) and all
2-hop chains of the bool-producing kinds.

RETIRED NAMES (wave 4): a second program family (`retired_programs`) whose expressions mention a name that no `config`
defines (every edge kind a bool / int / string name can sit in, two 2-hop chains, choices, menus), explored with loads of
files that carry that name in their "Deprecated options" block: load_deprecated=True as replace and as merge,
load_deprecated=False as control, the entry as `=y` / `is not set` / typed value; with a rename table (plain and
inverted, the file then being the one the tool itself writes with write_deprecated=True) and without; the retired name is
itself in the read alphabet (so "evaluated before the load" is reachable directly and through every dependent), can be
set / unset through the API once a load made it assignable, and is part of the observation, of the canonical key and of
the final user state.

CHOICE OBJECTS: every memoised attribute of a Choice is in the read alphabet (`readc` = selection + visibility, `readcf`
= ONE attribute: assignable in the quick tier; visibility, selection, assignable and the derived mode each alone in the
thorough tier); all of them and the mode (str/bool value) are part of the observation the oracles compare, and the
cache-fill bit of each is part of the canonical key.

Oracles, after every transition, on twin instances built by replaying the same history:
  (1) observation through the API == observation after EVERY `_cached_*` slot of every non-constant symbol known to the
      instance (defined or only mentioned) and of every choice was reset by hand (not through the library's own
      _invalidate(), which is part of what is being checked)
  (2) (histories without stale default-marked loads) == a fresh instance given only the final user values and picks,
      applied in definition order and in reverse order
      (a retired name's final value is applied to the fresh instance the only way the API allows: a deprecated block
      carrying it, loaded as a merge with load_deprecated=True, before or after the other values)
  (3) observations read in forward and in reverse order are identical
  (4) the same history without its read operations leads to the same observation
"""

from __future__ import annotations

import itertools
from typing import Any, Dict, Iterator, List, Optional, Tuple

from .. import common, explore, impl, kgen
from ..kgen import And, Cfg, Choice, If, L, Menu, Not, Or, Program, Rel, S

ID = "C03"
LEVEL = "model_checking"
RULE = (
    "explicit-state BFS per program over W-ops (set/unset/reset/load/merge) and R-ops (read one option / one choice) up to "
    "the depth bound; states merged on (user state, cache-fill bits); programs = one per dependency-edge kind x type plus all "
    "2-hop chains, plus one per edge kind in which a name WITHOUT definition is mentioned (bool/int/string, chains, choices, menus; "
    "with and without a rename table) explored with loads of files carrying that name in the deprecated block "
    "(load_deprecated True as replace / merge, False as control) and set/unset of the name once it is assignable; reads = one "
    "option (defined or only mentioned) / one choice / ONE memoised attribute of a choice object. distinct_nontrivial counts distinct (program, canonical state) pairs in which at least one memoised field "
    "was filled before the last W-op (i.e. invalidation had something to do)."
)
ASSUMPTIONS = [
    "final user state for the fresh-instance comparison is read from Symbol._user_value / Choice._user_selection of the explored instance",
    "the fresh-instance comparison is skipped for histories containing a load with stale default-marked entries (as the statement allows)",
    "a file the tool wrote (write_deprecated=True) BEFORE the retired name took part in evaluation counts as carrying stale default-marked entries when loaded with load_deprecated=True",
    "the final user value of a retired name is applied to the fresh instance by a merge-load of a synthesised deprecated block (there is no other API); "
    "a retired name that a load made assignable and whose value was then unset is re-created the same way and unset",
    "'all cached results discarded' = every slot named _cached_* of every non-constant Symbol in Kconfig.syms and of every Choice reset to its empty marker",
]


def ybool(name="Y") -> Cfg:
    return Cfg(name, "bool", prompt=name.lower())


def edge_programs() -> Iterator[Dict[str, Any]]:
    """kind, program, setters {name: [values]}, extra load texts"""

    def P(kind, kids, setters, loads=()):
        return {"kind": kind, "prog": Program(children=kids), "setters": setters, "loads": list(loads)}

    YB = {"Y": ["y", "n"]}
    # --- bool Y -> X
    yield P("prompt_cond", [ybool(), Cfg("X", "bool", prompt="x", prompt_cond=S("Y"), defaults=[(L("n"), None)])], {**YB, "X": ["y"]})
    yield P("prompt_cond_int", [ybool(), Cfg("X", "int", prompt="x", prompt_cond=S("Y"), defaults=[(L("5"), None)])], {**YB, "X": ["9"]},
            loads=["# default:\nCONFIG_X=6\n"])
    yield P("depends", [ybool(), Cfg("X", "bool", prompt="x", depends=[S("Y")], defaults=[(L("y"), None)])], {**YB, "X": ["n"]})
    yield P("depends_str", [ybool(), Cfg("X", "string", prompt="x", depends=[S("Y")], defaults=[(L('"d"'), None)])], {**YB, "X": ["u"]},
            loads=['# default:\nCONFIG_X="stale"\n'])
    yield P("default_value", [ybool(), Cfg("X", "bool", prompt="x", defaults=[(S("Y"), None)])], {**YB, "X": ["n"]})
    yield P("default_value_promptless", [ybool(), Cfg("X", "bool", defaults=[(S("Y"), None)])], YB)
    yield P("default_cond_bool", [ybool(), Cfg("X", "bool", prompt="x", defaults=[(L("y"), S("Y"))])], {**YB, "X": ["n"]})
    yield P("default_cond_int", [ybool(), Cfg("X", "int", prompt="x", defaults=[(L("7"), S("Y")), (L("3"), None)])], {**YB, "X": ["4"]},
            loads=["# default:\nCONFIG_X=9\n"])
    yield P("default_cond_not", [ybool(), Cfg("X", "string", defaults=[(L('"a"'), Not(S("Y"))), (L('"b"'), None)])], YB)
    yield P("range_cond", [ybool(), Cfg("X", "int", prompt="x", ranges=[(L("1"), L("5"), S("Y"))], defaults=[(L("3"), None)])], {**YB, "X": ["9"]})
    yield P("range_cond_hex", [ybool(), Cfg("X", "hex", prompt="x", ranges=[(L("0x1"), L("0x5"), S("Y"))], defaults=[(L("0x3"), None)])], {**YB, "X": ["0x9"]})
    yield P("range_cond_float", [ybool(), Cfg("X", "float", prompt="x", ranges=[(L("1.0"), L("5.0"), S("Y"))], defaults=[(L("3.0"), None)])], {**YB, "X": ["9.5"]})
    y = ybool(); y.selects.append(("X", None))
    yield P("select", [y, Cfg("X", "bool", prompt="x")], {**YB, "X": ["n", "y"]})
    y = ybool(); y.selects.append(("X", S("C")))
    yield P("select_cond", [ybool("C"), y, Cfg("X", "bool", prompt="x")], {"C": ["y", "n"], "Y": ["y"]})
    y = ybool(); y.implies.append(("X", None))
    yield P("imply", [y, Cfg("X", "bool", prompt="x")], {**YB, "X": ["n"]})
    y = ybool(); y.implies.append(("X", None))
    yield P("imply_directdep", [ybool("D"), y, Cfg("X", "bool", depends=[S("D")])], {"D": ["y", "n"], "Y": ["y"]})
    y = ybool(); y.implies.append(("X", S("C")))
    yield P("imply_cond", [ybool("C"), y, Cfg("X", "bool", prompt="x")], {"C": ["y", "n"], "Y": ["y"]})
    for t, v, d, u in (("int", "7", "3", "4"), ("string", '"f"', '"d"', "u"), ("hex", "0x7", "0x3", "0x4"), ("float", "7.5", "3.5", "4.5")):
        y = ybool(); y.sets.append(("X", L(v), None))
        yield P(f"set_source_{t}", [y, Cfg("X", t, prompt="x", defaults=[(L(d), None)])], {**YB, "X": [u]})
        y = ybool(); y.wsets.append(("X", L(v), None))
        yield P(f"wset_source_{t}", [y, Cfg("X", t, prompt="x", defaults=[(L(d), None)])], {**YB, "X": [u]})
    y = ybool(); y.sets.append(("X", L("7"), S("C")))
    yield P("set_cond", [ybool("C"), y, Cfg("X", "int", prompt="x", defaults=[(L("3"), None)])], {"C": ["y", "n"], "Y": ["y"]})
    y = ybool(); y.wsets.append(("X", L("7"), S("C")))
    yield P("wset_cond", [ybool("C"), y, Cfg("X", "int", prompt="x", defaults=[(L("3"), None)])], {"C": ["y", "n"], "Y": ["y"]})
    # targets that have NOTHING of their own but the dependency (no prompt / default / range: the dependency reaches the
    # option only through `set default` / `set` / imply evaluating direct_dep)
    for t, v in (("int", "7"), ("string", '"w"'), ("hex", "0x7")):
        y = ybool(); y.wsets.append(("X", L(v), None))
        yield P(f"wset_directdep_bare_{t}", [ybool("D"), y, Cfg("X", t, depends=[S("D")]), Cfg("Z", t, prompt="z", defaults=[(S("X"), None)])], {"D": ["n", "y"], "Y": ["y"]})
        y = ybool(); y.sets.append(("X", L(v), None))
        yield P(f"set_directdep_bare_{t}", [ybool("D"), y, Cfg("X", t, depends=[S("D")]), Cfg("Z", t, prompt="z", defaults=[(S("X"), None)])], {"D": ["n", "y"], "Y": ["y"]})
    y = ybool(); y.implies.append(("X", None))
    yield P("imply_directdep_bare", [ybool("D"), y, Cfg("X", "bool", depends=[S("D")]), Cfg("Z", "bool", prompt="z", defaults=[(S("X"), None)])], {"D": ["n", "y"], "Y": ["y"]})
    y = ybool(); y.wsets.append(("X", L("7"), None))
    yield P("wset_directdep", [ybool("D"), y, Cfg("X", "int", prompt="x", depends=[S("D")], defaults=[(L("3"), None)])], {"D": ["y", "n"], "Y": ["y"]})
    # value symbol of set / set default
    src = ybool("SRC"); src.sets.append(("X", S("V"), None))
    yield P("set_value_symbol", [Cfg("V", "string", prompt="v", defaults=[(L('"v0"'), None)]), src, Cfg("X", "string", prompt="x", defaults=[(L('"d"'), None)])],
            {"V": ["v1", "v2"], "SRC": ["y"]})
    src = ybool("SRC"); src.wsets.append(("X", S("V"), None))
    yield P("wset_value_symbol", [Cfg("V", "string", prompt="v", defaults=[(L('"v0"'), None)]), src, Cfg("X", "string", prompt="x", defaults=[(L('"d"'), None)])],
            {"V": ["v1", "v2"], "SRC": ["y"]})
    # two sets on one target, the second literal not valid for the type (documented syntax `set X=<symbol>`)
    src = ybool("SRC"); src.sets.append(("X", L("7"), S("C"))); src.sets.append(("X", S("V"), None))
    yield P("set_then_symbol_valued_set_int", [ybool("C"), Cfg("V", "int", prompt="v", defaults=[(L("1"), None)]), src, Cfg("X", "int", prompt="x", defaults=[(L("3"), None)])],
            {"C": ["y", "n"], "SRC": ["y"]})
    # choices
    yield P("choice_prompt_cond", [ybool(), Choice(prompt="c", prompt_cond=S("Y"), children=[Cfg("X", "bool", prompt="x"), Cfg("X2", "bool", prompt="x2")])],
            {**YB, "X2": ["y"]})
    yield P("choice_depends", [ybool(), Choice(prompt="c", depends=[S("Y")], children=[Cfg("X", "bool", prompt="x"), Cfg("X2", "bool", prompt="x2")])],
            {**YB, "X2": ["y"]})
    yield P("choice_default_cond", [ybool(), Choice(prompt="c", defaults=[("X2", S("Y"))], children=[Cfg("X", "bool", prompt="x"), Cfg("X2", "bool", prompt="x2")])],
            {**YB, "X": ["y"]}, loads=["# default:\n# CONFIG_X is not set\n# default:\nCONFIG_X2=y\n"])
    yield P("choice_default_cond_last", [ybool(), Choice(prompt="c", defaults=[("X", S("Y")), ("X2", None)], children=[Cfg("X", "bool", prompt="x"), Cfg("X2", "bool", prompt="x2")]),
                                         Cfg("D", "int", defaults=[(L("1"), S("X")), (L("2"), None)])],
            {**YB, "X": ["y"]})
    # the same with a PROMPTED option outside the choice following the selection, and an entry file (written under another
    # default selection) whose marked entries are consistent with each other: only the choice's default has to be injected
    yield P("choice_default_cond_outside_prompted", [ybool(), Choice(prompt="c", defaults=[("X", S("Y")), ("X2", None)], children=[Cfg("X", "bool", prompt="x"), Cfg("X2", "bool", prompt="x2")]),
                                                     Cfg("D", "string", prompt="d", defaults=[(L('"one"'), S("X")), (L('"two"'), S("X2"))]),
                                                     Cfg("U", "bool", prompt="u", defaults=[(L("y"), Rel("=", S("D"), L('"one"')))])],
            {**YB, "X": ["y"], "X2": ["y"]}, loads=['# default:\nCONFIG_X=y\n# default:\n# CONFIG_X2 is not set\n# default:\nCONFIG_D="one"\n# default:\nCONFIG_U=y\n'])
    yield P("member_visibility", [ybool(), Choice(prompt="c", children=[Cfg("X", "bool", prompt="x", prompt_cond=S("Y")), Cfg("X2", "bool", prompt="x2")])],
            {**YB, "X": ["y"], "X2": ["y"]})
    yield P("member_depends", [ybool(), Choice(prompt="c", children=[Cfg("X", "bool", prompt="x", depends=[S("Y")]), Cfg("X2", "bool", prompt="x2")])],
            {**YB, "X": ["y"]})
    yield P("member_as_cond", [Choice(prompt="c", children=[Cfg("Y", "bool", prompt="y"), Cfg("Y2", "bool", prompt="y2")]), Cfg("X", "int", prompt="x", defaults=[(L("1"), S("Y2")), (L("2"), None)])],
            {"Y": ["y"], "Y2": ["y"]})
    yield P("named_choice_twice", [ybool(), Choice(name="CH", prompt="c", children=[Cfg("X", "bool", prompt="x")]),
                                   Choice(name="CH", prompt=None, children=[Cfg("X2", "bool", prompt="x2", prompt_cond=S("Y"))])],
            {**YB, "X2": ["y"], "X": ["y"]})
    # structure
    yield P("menu_visible_if", [ybool(), Menu(visible_if=[S("Y")], children=[Cfg("X", "int", prompt="x", defaults=[(L("3"), None)])])], {**YB, "X": ["4"]})
    yield P("menu_depends", [ybool(), Menu(depends=[S("Y")], children=[Cfg("X", "int", prompt="x", defaults=[(L("3"), None)])])], {**YB, "X": ["4"]})
    yield P("if_block", [ybool(), If(cond=S("Y"), children=[Cfg("X", "string", prompt="x", defaults=[(L('"d"'), None)])])], {**YB, "X": ["u"]})
    # the prompt lives on the SECOND definition (first one: type + default only)
    yield P("multi_def_prompt_second", [Cfg("X", "bool", defaults=[(L("n"), None)]), Cfg("G", "bool", prompt="g", defaults=[(L("y"), None)]), Cfg("X", "bool", prompt="x", depends=[S("G")]),
                                        Cfg("Z", "int", prompt="z", defaults=[(L("3"), S("X")), (L("1"), None)]), Cfg("E", "string", prompt="e", depends=[S("X")], defaults=[(L('"on"'), None)])],
            {"X": ["y", "n"], "G": ["n"]})
    yield P("multi_def", [ybool(), Cfg("X", "int", prompt="x", prompt_cond=S("Y"), defaults=[(L("1"), S("Y"))]), Cfg("X", "int", defaults=[(L("2"), None)])], {**YB, "X": ["5"]})
    # --- typed Y
    yield P("default_sym_int", [Cfg("Y", "int", prompt="y", defaults=[(L("1"), None)]), Cfg("X", "int", prompt="x", defaults=[(S("Y"), None)])], {"Y": ["5", "8"], "X": ["2"]})
    yield P("default_sym_string", [Cfg("Y", "string", prompt="y", defaults=[(L('"a"'), None)]), Cfg("X", "string", defaults=[(S("Y"), None)])], {"Y": ["b", ""]})
    yield P("default_sym_float", [Cfg("Y", "float", prompt="y", defaults=[(L("1.5"), None)]), Cfg("X", "float", defaults=[(S("Y"), None)])], {"Y": ["2.5", "4"]})
    yield P("range_low_sym", [Cfg("Y", "int", prompt="y", defaults=[(L("1"), None)]), Cfg("X", "int", prompt="x", ranges=[(S("Y"), L("9"), None)], defaults=[(L("3"), None)])], {"Y": ["5", "0"], "X": ["2"]})
    yield P("range_high_sym", [Cfg("Y", "int", prompt="y", defaults=[(L("9"), None)]), Cfg("X", "int", prompt="x", ranges=[(L("0"), S("Y"), None)], defaults=[(L("3"), None)])], {"Y": ["2", "7"], "X": ["5"]})
    yield P("range_sym_hex", [Cfg("Y", "hex", prompt="y", defaults=[(L("0x9"), None)]), Cfg("X", "hex", prompt="x", ranges=[(L("0x0"), S("Y"), None)], defaults=[(L("0x3"), None)])], {"Y": ["0x2", "0x7"], "X": ["0x5"]})
    for op in ("=", "!=", "<", ">="):
        yield P(f"rel_dep_{op}", [Cfg("Y", "int", prompt="y", defaults=[(L("1"), None)]), Cfg("X", "bool", prompt="x", depends=[Rel(op, S("Y"), L("3"))], defaults=[(L("y"), None)])], {"Y": ["3", "5"], "X": ["n"]})
    yield P("rel_default_cond_str", [Cfg("Y", "string", prompt="y", defaults=[(L('"a"'), None)]), Cfg("X", "int", defaults=[(L("1"), Rel("=", S("Y"), L('"b"'))), (L("2"), None)])], {"Y": ["b", "c"]})
    yield P("rel_two_syms", [Cfg("Y", "int", prompt="y", defaults=[(L("1"), None)]), Cfg("Z", "int", prompt="z", defaults=[(L("2"), None)]), Cfg("X", "bool", defaults=[(L("y"), Rel("<", S("Y"), S("Z")))])], {"Y": ["5"], "Z": ["9", "0"]})
    y = ybool(); y.sets.append(("X", L("7"), Rel("=", S("N"), L("3"))))
    yield P("set_cond_rel", [Cfg("N", "int", prompt="n", defaults=[(L("1"), None)]), y, Cfg("X", "int", prompt="x", defaults=[(L("3"), None)])], {"N": ["3", "4"], "Y": ["y"]})


BOOL_LINK = ("prompt_cond", "depends", "default_value", "default_cond", "select", "imply", "if_block", "menu_depends", "not_default")


def link(kind: str, src: str, dst: str, prompt: bool) -> List[Any]:
    """AST fragment making bool `dst` depend on bool `src` through one edge kind (src is defined elsewhere)"""
    p = dst.lower() if prompt else None
    if kind == "prompt_cond":
        return [Cfg(dst, "bool", prompt=dst.lower(), prompt_cond=S(src), defaults=[(L("y"), None)])]
    if kind == "depends":
        return [Cfg(dst, "bool", prompt=p, depends=[S(src)], defaults=[(L("y"), None)])]
    if kind == "default_value":
        return [Cfg(dst, "bool", prompt=p, defaults=[(S(src), None)])]
    if kind == "default_cond":
        return [Cfg(dst, "bool", prompt=p, defaults=[(L("y"), S(src))])]
    if kind == "not_default":
        return [Cfg(dst, "bool", prompt=p, defaults=[(L("y"), Not(S(src)))])]
    if kind == "if_block":
        return [If(cond=S(src), children=[Cfg(dst, "bool", prompt=p, defaults=[(L("y"), None)])])]
    if kind == "menu_depends":
        return [Menu(depends=[S(src)], children=[Cfg(dst, "bool", prompt=p, defaults=[(L("y"), None)])])]
    raise ValueError(kind)


def chain_programs() -> Iterator[Dict[str, Any]]:
    for k1, k2 in itertools.product(BOOL_LINK, repeat=2):
        for zprompt in (False, True):
            kids: List[Any] = []
            y = ybool()
            if k1 in ("select", "imply"):
                (y.selects if k1 == "select" else y.implies).append(("Z", None))
                zfrag = [Cfg("Z", "bool", prompt="z" if zprompt else None)]
            else:
                zfrag = link(k1, "Y", "Z", zprompt)
            if k2 in ("select", "imply"):
                # Z is the source of a reverse dependency on X
                zc = [n for n in kgen.walk(zfrag) if n.kind == "cfg"][0]
                (zc.selects if k2 == "select" else zc.implies).append(("X", None))
                xfrag = [Cfg("X", "bool", prompt="x")]
            else:
                xfrag = link(k2, "Z", "X", True)
            kids = [y] + zfrag + xfrag
            setters = {"Y": ["y", "n"]}
            if zprompt:
                setters["Z"] = ["n"]
            yield {"kind": f"chain:{k1}>{k2}{'+zprompt' if zprompt else ''}", "prog": Program(children=kids), "setters": setters, "loads": []}


# --------------------------------------------------------------------------------------------------
# retired names: mentioned by expressions, defined nowhere, brought in by the deprecated block of a loaded file
# --------------------------------------------------------------------------------------------------
DEP_BEGIN = "# Deprecated options for backward compatibility"
DEP_END = "# End of deprecated options"


def dep_block(entries) -> str:
    """entries: [(name, text of the value as written in the file | None for `is not set`)]"""
    lines = [DEP_BEGIN]
    for n, v in entries:
        lines.append(f"# CONFIG_{n} is not set" if v is None else f"CONFIG_{n}={v}")
    lines.append(DEP_END)
    return "\n".join(lines) + "\n"


def retired_programs(tier: str = "thorough") -> Iterator[Dict[str, Any]]:
    """One program per way an expression can mention the name OLD, which no `config` defines.
    retired: {name: [values set_value() is tried with once a load made the name assignable]};
    dep_loads: files whose deprecated block carries the name (no default-marked entries: never stale);
    renames: rename table given to the instance (None = none)."""
    O = S("OLD")

    def P(kind, kids, setters, vals=("y", None), oldset=("n",), renames=None, extra=()):
        return {"kind": "retired:" + kind, "prog": Program(children=kids), "setters": setters, "loads": [],
                "retired": {"OLD": list(oldset)}, "dep_loads": [dep_block([("OLD", v)]) for v in vals] + list(extra), "renames": renames}

    def two():
        return [Cfg("X", "bool", prompt="x"), Cfg("X2", "bool", prompt="x2")]

    yield P("default_cond_bool", [Cfg("X", "bool", prompt="x", defaults=[(L("y"), O), (L("n"), None)])], {"X": ["n"]})
    yield P("default_cond_int", [Cfg("X", "int", prompt="x", defaults=[(L("7"), O), (L("3"), None)])], {"X": ["4"]})
    yield P("default_cond_str_promptless", [Cfg("X", "string", defaults=[(L('"a"'), O), (L('"b"'), None)]),
                                            Cfg("E", "bool", prompt="e", depends=[Rel("=", S("X"), L('"a"'))], defaults=[(L("y"), None)])], {"E": ["n"]})
    yield P("default_value", [Cfg("X", "bool", prompt="x", defaults=[(O, None)])], {"X": ["n"]})
    yield P("default_value_promptless", [Cfg("X", "bool", defaults=[(O, None)]), Cfg("E", "string", prompt="e", depends=[S("X")], defaults=[(L('"on"'), None)])], {"E": ["u"]})
    yield P("not_default", [Cfg("X", "bool", prompt="x", defaults=[(L("y"), Not(O))])], {"X": ["n"]})
    yield P("depends", [Cfg("X", "bool", prompt="x", depends=[O], defaults=[(L("y"), None)])], {"X": ["n"]})
    yield P("depends_str", [Cfg("X", "string", prompt="x", depends=[O], defaults=[(L('"d"'), None)])], {"X": ["u"]})
    yield P("prompt_cond", [Cfg("X", "int", prompt="x", prompt_cond=O, defaults=[(L("5"), None)])], {"X": ["9"]})
    yield P("range_cond", [Cfg("X", "int", prompt="x", ranges=[(L("1"), L("5"), O)], defaults=[(L("3"), None)])], {"X": ["9"]})
    yield P("and_dep", [ybool(), Cfg("X", "bool", prompt="x", depends=[And(S("Y"), O)], defaults=[(L("y"), None)])], {"Y": ["y"], "X": ["n"]})
    yield P("or_dep", [ybool(), Cfg("X", "bool", prompt="x", depends=[Or(S("Y"), O)], defaults=[(L("y"), None)])], {"Y": ["y"], "X": ["n"]})
    y = ybool(); y.selects.append(("X", O))
    yield P("select_cond", [y, Cfg("X", "bool", prompt="x")], {"Y": ["y"], "X": ["n"]})
    y = ybool(); y.implies.append(("X", O))
    yield P("imply_cond", [y, Cfg("X", "bool", prompt="x")], {"Y": ["y"], "X": ["n"]})
    y = ybool(); y.sets.append(("X", L("7"), O))
    yield P("set_cond", [y, Cfg("X", "int", prompt="x", defaults=[(L("3"), None)])], {"Y": ["y"]})
    y = ybool(); y.wsets.append(("X", L("7"), O))
    yield P("wset_cond", [y, Cfg("X", "int", prompt="x", defaults=[(L("3"), None)])], {"Y": ["y"]})
    # choices
    yield P("choice_depends", [Choice(prompt="c", depends=[O], children=two())], {"X2": ["y"]})
    yield P("choice_prompt_cond", [Choice(prompt="c", prompt_cond=O, children=two())], {"X2": ["y"]})
    yield P("choice_default_cond", [Choice(prompt="c", defaults=[("X2", O)], children=two()), Cfg("D", "int", defaults=[(L("1"), S("X2")), (L("2"), None)])], {"X": ["y"]})
    yield P("member_visibility", [Choice(prompt="c", children=[Cfg("X", "bool", prompt="x", prompt_cond=O), Cfg("X2", "bool", prompt="x2")])], {"X": ["y"], "X2": ["y"]})
    yield P("member_depends", [Choice(prompt="c", children=[Cfg("X", "bool", prompt="x", depends=[O]), Cfg("X2", "bool", prompt="x2")])], {"X": ["y"]})
    # structure
    yield P("menu_visible_if", [Menu(visible_if=[O], children=[Cfg("X", "int", prompt="x", defaults=[(L("3"), None)])])], {"X": ["4"]})
    yield P("menu_depends", [Menu(depends=[O], children=[Cfg("X", "int", prompt="x", defaults=[(L("3"), None)])])], {"X": ["4"]})
    yield P("if_block", [If(cond=O, children=[Cfg("X", "string", prompt="x", defaults=[(L('"d"'), None)])])], {"X": ["u"]})
    yield P("menu_visible_if_choice", [Menu(visible_if=[O], children=[Choice(prompt="c", children=two())])], {"X2": ["y"]})
    # typed entries (the type of the retired name is inferred from the text of its entry)
    yield P("rel_int_eq", [Cfg("X", "bool", prompt="x", depends=[Rel("=", O, L("3"))], defaults=[(L("y"), None)])], {"X": ["n"]}, vals=("3", "5"), oldset=("4",))
    yield P("rel_int_lt", [Cfg("X", "int", defaults=[(L("1"), Rel("<", O, L("3"))), (L("2"), None)]), Cfg("E", "bool", prompt="e", defaults=[(L("y"), Rel("=", S("X"), L("1")))])],
            {"E": ["n"]}, vals=("2", "5"), oldset=("7",))
    yield P("rel_hex_eq", [Cfg("X", "bool", prompt="x", depends=[Rel("=", O, L("0x3"))], defaults=[(L("y"), None)])], {"X": ["n"]}, vals=("0x3", "0x5"), oldset=("0x4",))
    yield P("rel_str_eq", [Cfg("X", "int", prompt="x", defaults=[(L("1"), Rel("=", O, L('"b"'))), (L("2"), None)])], {"X": ["4"]}, vals=('"b"', '"c"'), oldset=("d",))
    yield P("rel_str_ne", [Cfg("X", "bool", prompt="x", depends=[Rel("!=", O, L('"b"'))], defaults=[(L("y"), None)])], {"X": ["n"]}, vals=('"b"', '"c"'), oldset=("b",))
    # 2-hop chains from the retired name
    yield P("chain:default_value>depends", [Cfg("Z", "bool", defaults=[(O, None)]), Cfg("X", "bool", prompt="x", depends=[S("Z")], defaults=[(L("y"), None)])], {"X": ["n"]})
    yield P("chain:depends>default_cond", [Cfg("Z", "bool", prompt="z", depends=[O], defaults=[(L("y"), None)]), Cfg("X", "int", prompt="x", defaults=[(L("7"), S("Z")), (L("3"), None)])],
            {"Z": ["n"], "X": ["4"]})
    z = Cfg("Z", "bool", prompt="z", depends=[O], defaults=[(L("y"), None)]); z.selects.append(("X", None))
    yield P("chain:depends>select", [z, Cfg("X", "bool", prompt="x")], {"Z": ["n"], "X": ["n"]})
    yield P("chain:default_cond>choice_depends", [Cfg("Z", "bool", defaults=[(L("y"), O)]), Choice(prompt="c", depends=[S("Z")], children=two())], {"X2": ["y"]})
    # two retired names in one file
    yield dict(P("two_names", [Cfg("X", "bool", prompt="x", depends=[O], defaults=[(L("y"), None)]), Cfg("W", "int", prompt="w", defaults=[(L("7"), S("OLD2")), (L("3"), None)])], {"X": ["n"]},
                 vals=(), extra=[dep_block([("OLD", "y"), ("OLD2", None)]), dep_block([("OLD2", "y")])]), retired={"OLD": ["n"], "OLD2": []})
    # --- with a rename table OLD -> NEW (NEW is defined; the file is then also the one the tool writes itself)
    RN = ["CONFIG_OLD CONFIG_NEW\n"]
    plain = ["CONFIG_OLD=y\n"]  # outside the block: mapped to NEW by the table
    q = tier == "quick"  # quick tier: the replacement is the only settable option, two variants left to the thorough tier

    def st(d):
        return {k: v for k, v in d.items() if k == "NEW"} if q else d

    yield P("rn:default_cond_bool", [Cfg("NEW", "bool", prompt="new"), Cfg("X", "bool", prompt="x", defaults=[(L("y"), O), (L("n"), None)])], st({"NEW": ["y"], "X": ["n"]}), renames=RN, extra=plain)
    yield P("rn:choice_depends", [Cfg("NEW", "bool", prompt="new"), Choice(prompt="c", depends=[O], children=two())], st({"NEW": ["y"], "X2": ["y"]}), renames=RN)
    yield P("rn:rel_int_eq", [Cfg("NEW", "int", prompt="new", defaults=[(L("1"), None)]), Cfg("X", "bool", prompt="x", depends=[Rel("=", O, L("3"))], defaults=[(L("y"), None)])],
            st({"NEW": ["3"], "X": ["n"]}), vals=("3", "5"), oldset=("4",), renames=RN)
    yield P("rn_inv:default_cond_bool", [Cfg("NEW", "bool", prompt="new"), Cfg("X", "bool", prompt="x", defaults=[(L("y"), O), (L("n"), None)])], st({"NEW": ["y"], "X": ["n"]}),
            renames=["CONFIG_OLD !CONFIG_NEW\n"], extra=plain)
    if not q:
        yield P("rn:depends", [Cfg("NEW", "bool", prompt="new"), Cfg("X", "bool", prompt="x", depends=[O], defaults=[(L("y"), None)])], {"NEW": ["y"], "X": ["n"]}, renames=RN, extra=plain)
        yield P("rn:new_follows_old", [Cfg("NEW", "bool", prompt="new", defaults=[(O, None)]), Cfg("X", "int", prompt="x", defaults=[(L("7"), S("NEW")), (L("3"), None)])], {"NEW": ["n"], "X": ["4"]}, renames=RN)


def all_programs(tier: str) -> List[Dict[str, Any]]:
    progs = list(edge_programs()) + list(chain_programs())
    return progs


ITEM_KEYS = ("setters", "loads", "depth", "wdepth", "retired", "dep_loads", "renames", "cfields")


def items(tier: str, seed: int):
    depth = 4 if tier == "quick" else 5
    # single attributes of a choice object that are read events of their own.  `readc` reads selection + visibility together,
    # so with `assignable` every memoised attribute is in the quick alphabet; the thorough tier also reads each one alone
    # and the mode (derived from the visibility, not memoised itself)
    cfields = ["assignable"] if tier == "quick" else ["visibility", "selection", "assignable", "bool_value"]
    out = []
    for p in all_programs(tier) + list(retired_programs(tier)):  # (all_programs() is also C09's list of bases: left as it was)
        out.append({"kind": p["kind"], "files": kgen.render(p["prog"]), "setters": p["setters"], "loads": p["loads"], "depth": depth, "wdepth": 3,
                    "retired": p.get("retired", {}), "dep_loads": p.get("dep_loads", []), "renames": p.get("renames"), "cfields": cfields})
    return out


def extra_syms(k) -> List[Any]:
    """symbols the instance knows that no `config` defines (names only mentioned by expressions / brought in by a deprecated
    block; unquoted number literals are such symbols too), in the deterministic order of Kconfig.syms"""
    defined = set(id(s) for s in k.unique_defined_syms)
    return [s for s in k.syms.values() if not s.is_constant and id(s) not in defined]


def op_menu(item, k) -> List[tuple]:
    ops: List[tuple] = []
    for name, vals in item["setters"].items():
        for v in vals:
            ops.append(("set", name, v))
        ops.append(("unset", name))
        ops.append(("reset", name))
    for i, t in enumerate(item["loads"]):
        ops.append(("load", t, True))
        ops.append(("load", t, False))
    # save the current configuration and load that very file back (self-consistent: no stale entries)
    ops.append(("saveload", True))
    # files the tool itself wrote in another configuration of the same tree (one per settable option, first value)
    for t in item.get("tool_files", []):
        ops.append(("load", t, True))
        ops.append(("load", t, False))  # merged into the current user values: its default-marked entries may then be out of date
    # files carrying a retired name in their deprecated block: requested (replace / merge) and not requested (control)
    for t in item.get("dep_loads", []):
        ops.append(("load", t, True, True))
        ops.append(("load", t, False, True))
        ops.append(("load", t, False, False))
    for t in item.get("tool_dep_files", []):
        ops.append(("load", t, True, True))
    # a retired name is assignable through the API once a load gave it its synthetic prompt
    for name, vals in item.get("retired", {}).items():
        s = k.syms.get(name)
        if s is not None and s.nodes:
            for v in vals:
                ops.append(("set", name, v))
            ops.append(("unset", name))
    for s in k.unique_defined_syms:
        ops.append(("read", s.name))
    for name in item.get("retired", {}):
        if name in k.syms:
            ops.append(("read", name))
    for i, _c in enumerate(k.unique_choices):
        ops.append(("readc", i))
        for f in item.get("cfields", []):
            ops.append(("readcf", i, f))
    return ops


def is_w(op) -> bool:
    return op[0] not in ("read", "readc", "readcf")


def full_obs(inst, order: Optional[List[str]] = None) -> Dict[str, tuple]:
    """impl.Inst.obs() extended to the symbols that are only mentioned / were brought in by a deprecated block"""
    k = inst.k
    names = [s.name for s in k.unique_defined_syms] + [s.name for s in extra_syms(k)]
    if order is not None:
        names = order
    out = {}
    for n in names:
        s = k.syms[n]
        out[n] = (s.str_value, s.visibility, tuple(s.assignable), s.config_string, bool(s._write_to_conf))
    return out


def full_bits(inst) -> tuple:
    """cache-fill bits of EVERY memoised slot: impl.cache_bits + assignable of the choices + the only-mentioned symbols"""
    k = inst.k
    return (
        impl.cache_bits(inst)
        + tuple(c._cached_assignable is not None for c in k.unique_choices)
        + tuple((s._cached_str_val is not None, s._cached_bool_val is not None, s._cached_vis is not None, s._cached_assignable is not None) for s in extra_syms(k))
    )


def discard_all(k) -> None:
    """resets every memoised slot by hand (the library's own _invalidate() is under test)"""
    core = impl.core()
    for s in list(k.unique_defined_syms) + extra_syms(k):
        for slot in type(s).__slots__:
            if slot.startswith("_cached_"):
                setattr(s, slot, None)
    for c in k.unique_choices:
        for slot in type(c).__slots__:
            if slot.startswith("_cached_"):
                setattr(c, slot, core._NO_CACHED_SELECTION if slot == "_cached_selection" else None)


def final_user(inst) -> Tuple[List[tuple], List[Optional[str]], List[tuple]]:
    k = inst.k
    vals = [(s.name, s._user_value) for s in k.unique_defined_syms if s._user_value is not None]
    picks = [c._user_selection.name if c._user_selection is not None else None for c in k.unique_choices]
    # retired names a load made part of the configuration: (name, type, user value)
    old = [(s.name, s.orig_type, s._user_value) for s in extra_syms(k) if s.nodes]
    return vals, picks, old


def old_entry(name: str, typ: int, uv: Any) -> Tuple[str, Optional[str]]:
    """the deprecated-block entry that gives a retired name this type and user value (a value-less one: any value of the type)"""
    core = impl.core()
    if typ == core.BOOL:
        return (name, "y" if uv in (2, "y") else None)
    if typ == core.STRING:
        return (name, '"' + (uv or "").replace("\\", "\\\\").replace('"', '\\"') + '"')
    if typ == core.HEX:
        return (name, uv if uv is not None else "0x0")
    return (name, uv if uv is not None else "0")


def fresh_with(files, vals, picks, reverse: bool, old=(), renames=None):
    inst = impl.Inst(files, renames=renames)
    k = inst.k

    def apply_old():
        if not old:
            return
        inst.load_text(dep_block([old_entry(n, t, uv) for n, t, uv in old]), replace=False, load_deprecated=True)
        for n, _t, uv in old:
            if uv is None:
                k.syms[n].unset_value()

    seq = list(vals)
    if reverse:
        seq.reverse()
    else:
        apply_old()
    pickset = {p for p in picks if p}
    late = [(n, v) for n, v in seq if n in pickset]
    for n, v in seq:
        if n in pickset:
            continue
        k.syms[n].set_value(v)
    for n, v in late:
        k.syms[n].set_value(v)
    if reverse:
        apply_old()
    # a pick whose member carries no user value y cannot arise through the API; picks are implied by `late`
    return inst


def explore_item(item, r: common.Result, only_history=None):
    files = item["files"]
    kind = item["kind"]
    ptext = files["Kconfig"]
    wdepth = item["wdepth"]
    renames = item.get("renames")
    kw = {"renames": renames} if renames else {}
    stale_texts = set(item["loads"])
    if "tool_files" not in item:
        tf = [impl.Inst(files, **kw).config_text()]
        tdf = []
        for name, vals in [(None, [None])] + list(item["setters"].items()):
            w = impl.Inst(files, **kw)
            if name is not None:
                w.set(name, vals[0])
                t = w.config_text()
                if t not in tf:
                    tf.append(t)
            if renames:
                # what the tool writes for users of the old names: the retired name's entry follows its replacement
                t = w.config_text(write_deprecated=True)
                if t not in tdf:
                    tdf.append(t)
        if item.get("retired"):
            tf = []  # (loads of plain tool-written files are covered by the programs without a retired name)
        item = dict(item, tool_files=tf, tool_dep_files=tdf)
    # written before the retired name took part in evaluation: their default-marked entries may be out of date
    stale_texts |= set(item["tool_dep_files"])

    def build(h):
        return impl.replay_ops(files, h, **kw)

    def enabled(h, st):
        ops = op_menu(item, st.k)
        nw = sum(1 for o in h if is_w(o))
        if nw >= wdepth:
            ops = [o for o in ops if not is_w(o)]
        # a read directly after a read of the same thing adds nothing
        return [o for o in ops if not (h and not is_w(o) and h[-1] == o)]

    def ext_state(st):
        return tuple((s.name, s._user_value, s.orig_type, bool(s.nodes)) for s in extra_syms(st.k))

    def canon(st):
        return (st.user_state(), ext_state(st), full_bits(st), tuple(repr(s.defaults) if getattr(s, "_default_value_injected", False) else 0 for s in st.k.unique_defined_syms))

    def mkcase(h):
        return {"kind": kind, "program": ptext, "files": files, "history": [list(o) for o in h], "item": {k: item[k] for k in ITEM_KEYS if k in item}}

    def chdiff(a, b) -> str:
        return "+".join(sorted({f for x, y in zip(a, b) for f, u, v in zip(("name", "selection", "visibility", "assignable", "str_value", "bool_value"), x, y) if u != v}))

    def sigfields(oa, ob, diff, ca, cb) -> str:
        f = fields_diff(oa, ob, diff)
        c = chdiff(ca, cb)
        return f + (("|" if f else "") + "choice." + c if c else "")

    def check(h, st):
        r.evals += 1
        case = mkcase(h)
        bits = full_bits(st)
        # (1) API observation vs. observation after discarding all caches
        obs_api = full_obs(st)
        ch_api = st.choice_obs(full=True)
        t1 = build(h)
        discard_all(t1.k)
        obs_inv = full_obs(t1)
        ch_inv = t1.choice_obs(full=True)
        if obs_api != obs_inv or ch_api != ch_inv:
            diff = [n for n in obs_api if obs_api[n] != obs_inv[n]]
            r.violation(
                {"kind": "stale_cache", "edge": kind, "fields": sigfields(obs_api, obs_inv, diff, ch_api, ch_inv)},
                f"[{kind}] after {fmt(h)}: cached {dict((n, obs_api[n][:3]) for n in diff)} but recomputed {dict((n, obs_inv[n][:3]) for n in diff)}"
                + (f"; choices {ch_api} vs {ch_inv}" if ch_api != ch_inv else ""),
                case,
            )
        # (3) read order
        t2 = build(h)
        obs_rev = full_obs(t2, order=list(reversed(list(obs_api))))
        if obs_rev != obs_api:
            diff = [n for n in obs_api if obs_api[n] != obs_rev[n]]
            r.violation(
                {"kind": "read_order", "edge": kind, "fields": fields_diff(obs_api, obs_rev, diff)},
                f"[{kind}] after {fmt(h)}: reading in reverse order gives {dict((n, obs_rev[n][:3]) for n in diff)}, forward {dict((n, obs_api[n][:3]) for n in diff)}",
                case,
            )
        # (4) reads are pure: the same history without its read operations leads to the same observation
        if any(not is_w(o) for o in h):
            t3 = build(tuple(o for o in h if is_w(o)))
            obs_nr = full_obs(t3)
            ch_nr = t3.choice_obs(full=True)
            if obs_nr != obs_api or ch_nr != ch_api:
                diff = [n for n in obs_api if obs_api[n] != obs_nr[n]]
                r.violation(
                    {"kind": "read_changed_outcome", "edge": kind, "fields": sigfields(obs_api, obs_nr, diff, ch_api, ch_nr)},
                    f"[{kind}] after {fmt(h)}: {dict((n, obs_api[n][:3]) for n in diff)}, but without the reads in that history {dict((n, obs_nr[n][:3]) for n in diff)}"
                    + (f"; choices {ch_api} vs {ch_nr}" if ch_api != ch_nr else ""),
                    case,
                )
        # (2) fresh instance with the same final user state
        stale = any(o[0] == "load" and (o[1] in stale_texts or (not o[2] and o[1] not in item.get("dep_loads", []))) for o in h)
        if not stale:
            vals, picks, old = final_user(st)
            for rev in (False, True):
                f = fresh_with(files, vals, picks, rev, old, renames)
                if [c._user_selection.name if c._user_selection is not None else None for c in f.k.unique_choices] != picks:
                    continue  # final pick not reproducible from user values alone (pick remembered on a member later set to n)
                obs_f = full_obs(f)
                ch_f = f.choice_obs(full=True)
                if obs_f != obs_inv or ch_f != ch_inv:
                    diff = [n for n in obs_f if obs_f[n] != obs_inv[n]]
                    r.violation(
                        {"kind": "fresh_instance", "edge": kind, "fields": sigfields(obs_inv, obs_f, diff, ch_inv, ch_f)},
                        f"[{kind}] after {fmt(h)}: fresh instance with user values {vals}{' + retired ' + repr(old) if old else ''} (reverse={rev}) gives "
                        f"{dict((n, obs_f[n][:3]) for n in diff)}, explored instance (recomputed) {dict((n, obs_inv[n][:3]) for n in diff)}"
                        + (f"; choices {ch_f} vs {ch_inv}" if ch_f != ch_inv else ""),
                        case,
                    )
        if h and any(any(b) if isinstance(b, tuple) else b for b in prev_bits(h)):
            r.outcome((ptext, st.user_state(), ext_state(st), bits))

    _pb: Dict[tuple, tuple] = {}

    def prev_bits(h):
        # cache-fill bits just before the last operation
        hp = h[:-1]
        if hp not in _pb:
            _pb.clear()
            _pb[hp] = full_bits(build(hp))
        return _pb[hp]

    if only_history is not None:
        h = tuple(tuple(o) for o in only_history)
        try:
            check(h, build(h))
        except impl.OpRaised as e:
            r.violation({"kind": "exception", "exc": e.exc_type, "site": e.site, "op": e.op[0]}, f"[{kind}] {fmt(h)}: {e}", {})
        return None

    def on_raise(h, e):
        if not isinstance(e, impl.OpRaised):
            raise e
        r.violation(
            {"kind": "exception", "exc": e.exc_type, "site": e.site, "op": e.op[0]},
            f"[{kind}] {fmt(h)}: {e}",
            mkcase(h),
        )

    st = explore.bfs(build, enabled, canon, check, item["depth"], on_raise=on_raise)
    r.states += st.states
    r.transitions += st.transitions
    return st


def fields_diff(a, b, names) -> str:
    fs = set()
    for n in names:
        for i, f in enumerate(("value", "visibility", "assignable", "config_string", "write_to_conf")):
            if a[n][i] != b[n][i]:
                fs.add(f)
    return "+".join(sorted(fs))


def fmt(h) -> str:
    return " ; ".join("(" + ",".join(map(repr, o)) + ")" for o in h)


def run_item(item) -> common.Result:
    r = common.Result()
    r.programs = 1
    st = explore_item(item, r)
    r.sample = {"edge_kind": item["kind"], "program": item["files"]["Kconfig"], "states": st.states, "transitions": st.transitions, "max_depth": st.max_depth}
    return r


def replay(case) -> List[dict]:
    item = dict(case["item"])
    item["kind"] = case["kind"]
    item["files"] = case["files"]
    r = common.Result()
    explore_item(item, r, only_history=case["history"])
    return r.viols

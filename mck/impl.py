"""Adapter around the real implementation: fresh instance per explored state, public entry points only."""

from __future__ import annotations

import io
import os
import sys
from typing import Any, Dict, List, Optional, Tuple

from . import common

_kl = None
_core = None


def lib():
    global _kl, _core
    if _kl is None:
        import esp_kconfiglib
        import esp_kconfiglib.core as core

        _kl, _core = esp_kconfiglib, core
    return _kl


def core():
    lib()
    return _core


_written: Dict[int, str] = {}
_counter = 0


def wdir() -> str:
    return common.scratch_dir("w")


def put_program(files: Dict[str, str]) -> str:
    """Writes the program files into a per-(process, program) directory; returns the root Kconfig path."""
    key = common.h64(sorted(files.items()))
    p = _written.get(key)
    if p is not None:
        return p
    if len(_written) > 4000:
        # bounded scratch usage: forget and remove old programs
        import shutil

        for q in _written.values():
            shutil.rmtree(os.path.dirname(q), ignore_errors=True)
        _written.clear()
    d = os.path.join(wdir(), f"p{key:016x}")
    os.makedirs(d, exist_ok=True)
    for name, text in files.items():
        fp = os.path.join(d, name)
        os.makedirs(os.path.dirname(fp), exist_ok=True)
        with open(fp, "w") as f:
            f.write(text)
    p = os.path.join(d, "Kconfig")
    _written[key] = p
    return p


def tmpfile(name: str = "sdkconfig") -> str:
    global _counter
    _counter += 1
    return os.path.join(wdir(), f"{name}.{_counter}")


def put_text(text: str, name: str = "f") -> str:
    p = tmpfile(name)
    with open(p, "w") as f:
        f.write(text)
    return p


class Inst:
    """One fresh Kconfig instance."""

    def __init__(
        self,
        files: Dict[str, str],
        parser: int = 1,
        renames: Optional[List[str]] = None,
        policy: Optional[str] = None,
        env: Optional[Dict[str, str]] = None,
    ):
        kl = lib()
        path = put_program(files)
        saved = {}
        envs = dict(env or {})
        if policy is not None:
            envs["KCONFIG_DEFAULTS_POLICY"] = policy
        for k, v in envs.items():
            saved[k] = os.environ.get(k)
            os.environ[k] = v
        cwd = os.getcwd()
        try:
            os.chdir(os.path.dirname(path))
            self.k = kl.Kconfig(path, parser_version=parser)
        finally:
            os.chdir(cwd)
            for k, v in saved.items():
                if v is None:
                    os.environ.pop(k, None)
                else:
                    os.environ[k] = v
        self.k.report.reset()
        self.path = path
        if renames:
            rpaths = [put_text(t, "sdkconfig.rename") for t in renames]
            self.k.load_rename_files(rpaths)

    # ---- operations -----------------------------------------------------------------
    def sym(self, name: str):
        return self.k.syms[name]

    def set(self, name: str, val: Any) -> bool:
        return self.k.syms[name].set_value(val)

    def unset(self, name: str) -> None:
        self.k.syms[name].unset_value()

    def reset(self, name: str) -> None:
        """reset-to-default as menuconfig / kconfserver do it"""
        s = self.k.syms[name]
        core()._restore_default(s.nodes[0])

    def reset_choice(self, idx: int) -> None:
        core()._restore_default(self.k.unique_choices[idx].nodes[0])

    def load_text(self, text: str, replace: bool = True, **kw) -> None:
        p = put_text(text, "load")
        self.k.report.reset()
        self.k.load_config(p, replace=replace, **kw)
        try:
            os.unlink(p)
        except OSError:
            pass

    def load_path(self, path: str, replace: bool = True, **kw) -> None:
        self.k.report.reset()
        self.k.load_config(path, replace=replace, **kw)

    def config_text(self, write_deprecated: bool = False) -> str:
        """bytes write_config() would produce (through the real file path)"""
        p = tmpfile("out")
        self.k.write_config(p, save_old=False, write_deprecated=write_deprecated)
        with open(p) as f:
            t = f.read()
        os.unlink(p)
        return t

    def header_text(self, write_deprecated: bool = False) -> str:
        p = tmpfile("hdr")
        self.k.write_autoconf(p, write_deprecated=write_deprecated)
        with open(p) as f:
            t = f.read()
        os.unlink(p)
        return t

    def min_text(self, labels: bool = False, normalize_unset: bool = False) -> str:
        p = tmpfile("min")
        self.k.write_min_config(p, labels=labels, normalize_unset=normalize_unset)
        with open(p) as f:
            t = f.read()
        os.unlink(p)
        return t

    def json_values(self) -> Dict[str, Any]:
        import kconfgen.core as kg

        return kg.get_json_values(self.k)

    # ---- observations ---------------------------------------------------------------
    def values(self) -> Dict[str, str]:
        return {s.name: s.str_value for s in self.k.unique_defined_syms}

    def obs(self, order: Optional[List[str]] = None) -> Dict[str, tuple]:
        out = {}
        syms = self.k.unique_defined_syms
        if order is not None:
            syms = [self.k.syms[n] for n in order]
        for s in syms:
            out[s.name] = (s.str_value, s.visibility, tuple(s.assignable), s.config_string, bool(s._write_to_conf))
        return out

    def choice_obs(self, full: bool = False) -> List[tuple]:
        """full=True: every memoised / derived attribute of the choice object itself (assignable, mode) as well"""
        out = []
        for c in self.k.unique_choices:
            sel = c.selection
            t = (c.name, sel.name if sel is not None else None, c.visibility)
            if full:
                t += (tuple(c.assignable), c.str_value, c.bool_value)
            out.append(t)
        return out

    def user_state(self) -> Tuple[tuple, tuple]:
        """persistent user-level state (for canonical keys)"""
        syms = tuple(
            (s.name, s._user_value, s._sdkconfig_value, s._loaded_as_default, bool(getattr(s, "_default_value_injected", False)))
            for s in self.k.unique_defined_syms
        )
        chs = tuple(
            (c._user_selection.name if c._user_selection is not None else None, c._user_value)
            for c in self.k.unique_choices
        )
        return syms, chs

    def report_areas(self) -> Dict[str, Any]:
        rep = self.k.report
        out = {}
        for a in rep.areas:
            n = type(a).__name__
            if n == "DefaultValuesArea":
                out[n] = {
                    "changed_defaults": sorted(a.changed_defaults),
                    "promptless": sorted(a.changed_values_promptless),
                    "choices": sorted(a.changed_choices),
                }
            elif n == "MultipleAssignmentArea":
                d = {}
                for attr in vars(a):
                    v = getattr(a, attr)
                    if attr in ("title", "info_string", "ignored_sc", "ignore_codes"):
                        continue
                    if isinstance(v, (dict, set, list)) and v:
                        d[attr] = repr(v)
                out[n] = d
        return out


def dv_area(k) -> Any:
    for a in k.report.areas:
        if type(a).__name__ == "DefaultValuesArea":
            return a
    raise KeyError


def ma_area(k) -> Any:
    for a in k.report.areas:
        if type(a).__name__ == "MultipleAssignmentArea":
            return a
    raise KeyError


# --------------------------------------------------------------------------------------------------
# operation alphabet shared by the explicit-state checks
# --------------------------------------------------------------------------------------------------


def read_sym(s) -> tuple:
    return (s.str_value, s.visibility, tuple(s.assignable), s.config_string)


CHOICE_FIELDS = ("visibility", "selection", "assignable", "str_value", "bool_value")


def read_choice_field(c, field: str) -> Any:
    if field not in CHOICE_FIELDS:
        raise ValueError(field)
    v = getattr(c, field)
    if field == "selection":
        return v.name if v is not None else None
    if field == "assignable":
        return tuple(v)
    return v


def apply_op(inst: "Inst", op: tuple, snapshots: Optional[List[str]] = None) -> Any:
    """Executes one operation through the entry points the tools use. Returns what the op observed (reads) or None."""
    k = inst.k
    kind = op[0]
    if kind == "set":
        return k.syms[op[1]].set_value(op[2])
    if kind == "unset":
        k.syms[op[1]].unset_value()
        return None
    if kind == "reset":
        core()._restore_default(k.syms[op[1]].nodes[0])
        return None
    if kind == "resetc":
        core()._restore_default(k.unique_choices[op[1]].nodes[0])
        return None
    if kind == "load":  # ("load", text, replace[, load_deprecated])
        if len(op) > 3:
            inst.load_text(op[1], replace=op[2], load_deprecated=bool(op[3]))
        else:
            inst.load_text(op[1], replace=op[2])
        return None
    if kind == "snap":  # write current configuration, remember the text
        t = inst.config_text()
        if snapshots is not None:
            snapshots.append(t)
        return t
    if kind == "loadsnap":  # ("loadsnap", index, replace)
        inst.load_text(snapshots[op[1]], replace=op[2])
        return None
    if kind == "saveload":  # write the current configuration and load that very file back (op[1] = replace)
        inst.load_text(inst.config_text(), replace=op[1])
        return None
    if kind == "read":
        return read_sym(k.syms[op[1]])
    if kind == "readc":
        c = k.unique_choices[op[1]]
        sel = c.selection
        return (sel.name if sel is not None else None, c.visibility)
    if kind == "readcf":  # ("readcf", index, field): ONE memoised / derived attribute of a choice object
        return read_choice_field(k.unique_choices[op[1]], op[2])
    if kind == "readall":
        return inst.obs()
    raise ValueError(op)


class OpRaised(Exception):
    """An operation of the explored history raised inside the implementation."""

    def __init__(self, index: int, op: tuple, exc: BaseException):
        import traceback

        tb = traceback.extract_tb(exc.__traceback__)
        site = "?"
        for fr in reversed(tb):
            if "/mck/" not in fr.filename:
                site = f"{os.path.basename(fr.filename)}:{fr.name}"
                break
        super().__init__(f"op #{index} {op!r} raised {type(exc).__name__}: {exc} at {site}")
        self.index, self.op, self.exc_type, self.site = index, op, type(exc).__name__, site


def replay_ops(files, ops, **kw) -> "Inst":
    inst = Inst(files, **kw)
    snaps: List[str] = []
    inst.snapshots = snaps
    for i, op in enumerate(ops):
        try:
            apply_op(inst, op, snaps)
        except Exception as e:  # noqa: BLE001 -- any exception out of a public entry point is an observation
            raise OpRaised(i, op, e) from e
    return inst


def cache_bits(inst: "Inst") -> tuple:
    k = inst.k
    return tuple(
        (s._cached_str_val is not None, s._cached_bool_val is not None, s._cached_vis is not None, s._cached_assignable is not None)
        for s in k.unique_defined_syms
    ) + tuple((c._cached_vis is not None, c._cached_selection is not core()._NO_CACHED_SELECTION) for c in k.unique_choices)


def defaults_sig(sc) -> tuple:
    """value-independent rendering of a symbol's / choice's defaults list (detects injected sdkconfig defaults)"""
    c = core()
    return tuple((c.expr_str(v) if not isinstance(v, str) else v, c.expr_str(cond)) for v, cond in sc.defaults)


def injected(inst: "Inst", baseline: "Inst") -> bool:
    """True iff some symbol / choice of `inst` carries defaults that differ from the tree's own (policy `sdkconfig` injection)"""
    for a, b in zip(inst.k.unique_defined_syms, baseline.k.unique_defined_syms):
        if defaults_sig(a) != defaults_sig(b):
            return True
    for a, b in zip(inst.k.unique_choices, baseline.k.unique_choices):
        if defaults_sig(a) != defaults_sig(b):
            return True
    return False

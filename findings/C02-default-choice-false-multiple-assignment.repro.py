#!/usr/bin/env python3
"""C02: reloading the tool's own sdkconfig reports a multiple assignment for a choice that was never assigned twice.

A choice left at its default whose default member depends on an option written LATER in the file -- through the
condition of the choice's `default` (variant "cond") or through the member's own `depends on` (variant "dep").
The written file marks every member line `# default:`.  While the file is read, the loader flags the choice as
"present in this sdkconfig" from the member's value AT THAT POINT OF THE LOAD (Symbol.present_in_current_sdkconfig's
setter reads `bool_value`); X has not been read yet, so the choice still resolves to its first member, the
`# CONFIG_MODE_A is not set` line flags the choice, and the following `CONFIG_MODE_B=y` line is recorded in the
Multiple Assignments area.  Values and the re-written file are identical; only the diagnostic is wrong.

exit 1 while the defect is present, 0 otherwise.  Run with /venv/bin/python.
"""
import os
import sys
import tempfile

from esp_kconfiglib import Kconfig
from esp_kconfiglib.report import MultipleAssignmentArea

COND = """mainmenu "T"

choice MODE
    prompt "mode"
    default MODE_B if X

config MODE_A
    bool "a"

config MODE_B
    bool "b"

endchoice

config X
    bool "x"
"""

DEP = """mainmenu "T"

choice MODE
    prompt "mode"
    default MODE_B

config MODE_A
    bool "a"

config MODE_B
    bool "b"
    depends on X

endchoice

config X
    bool "x"
"""


def run(text: str) -> list:
    with tempfile.TemporaryDirectory() as d:
        kp = os.path.join(d, "Kconfig")
        with open(kp, "w") as f:
            f.write(text)
        k = Kconfig(kp)
        k.syms["X"].set_value("y")  # the choice itself is left at its default (now MODE_B)
        sp = os.path.join(d, "sdkconfig")
        k.write_config(sp)
        before = {s.name: s.str_value for s in k.unique_defined_syms}
        k.report.reset()  # the report object is shared between instances
        fresh = Kconfig(kp)
        fresh.load_config(sp)
        after = {s.name: s.str_value for s in fresh.unique_defined_syms}
        assert before == after and before["MODE_B"] == "y", (before, after)
        ma = fresh.report.area_to_instance[MultipleAssignmentArea]
        return [(c.name, v) for c, v in ma.multiple_assignments_choice.items() if v]


def main() -> int:
    bad = 0
    for tag, text in (("cond", COND), ("dep", DEP)):
        rec = run(text)
        print(f"{tag}: multiple-assignment records after reloading the tool's own file: {rec}")
        bad += bool(rec)
    print("DEFECT PRESENT" if bad else "ok")
    return 1 if bad else 0


if __name__ == "__main__":
    sys.exit(main())

#!/usr/bin/env python
"""
C18: a compliant Kconfig file is refused when a quoted string contains the word `if` between two words and NO later ` if `
follows on the line: kconfcheck's reg_default (`^(.*)\\s+(?:if)\\s+(.*)$`, kconfcheck/core.py, IndentAndNameChecker.__init__)
splits the line at the LAST ` if `, which then lies inside the quotes.
  (a) default "sleep if idle"                         (unconditional default)
  (b) default 5 if APP_MODE = "sleep if idle"         (string literal in the condition of a default; same for range)
Reported: "config name sleep should be all uppercase"; --replace upper-cases words inside the string.
Exits 1 when the defect is present.  Run with the library importable (e.g. /venv/bin/python).
"""
import os
import sys
import tempfile

from kconfcheck.core import validate_file

HEAD = 'mainmenu "Top"\n\n    config APP_MODE\n        string "Mode"\n'
CASES = {
    "unconditional default": HEAD + '        default "sleep if idle"\n',
    "literal in a default condition": HEAD + '        default "a"\n\n    config APP_N\n        int "N"\n        default 5 if APP_MODE = "sleep if idle"\n        default 3\n',
}


def main() -> int:
    bad = 0
    with tempfile.TemporaryDirectory() as tmp:
        for name, text in CASES.items():
            path = os.path.join(tmp, "Kconfig")
            with open(path, "w", encoding="utf-8", newline="\n") as f:
                f.write(text)
            ok = validate_file(path, replace=True)
            with open(path, encoding="utf-8") as f:
                now = f.read()
            if not ok or now != text:
                bad += 1
                print(f"DEFECT ({name}): reported OK={ok}, rewritten={now != text}")
                if now != text:
                    print(now)
            for extra in (path + ".new",):
                if os.path.exists(extra):
                    os.remove(extra)
    print("defect present" if bad else "no defect")
    return 1 if bad else 0


if __name__ == "__main__":
    sys.exit(main())

#!/usr/bin/env python3
"""C11: load_deprecated=True -- an ordinary line that uses a deprecated name AFTER the deprecated block is not resolved.

A requested block entry `CONFIG_OLD_FEATURE=...` creates a synthetic symbol OLD_FEATURE.  The deprecated-name resolution
of ordinary lines only happens for names WITHOUT a symbol (`not sym or not sym.nodes`), so an override appended to a
tool-written sdkconfig through the old name

    ...                                         (file written with write_deprecated=True)
    # Deprecated options for backward compatibility
    # CONFIG_OLD_FEATURE is not set
    # End of deprecated options
    CONFIG_OLD_FEATURE=y                        <- appended by the user

assigns the synthetic symbol instead of FEATURE: FEATURE stays n, whereas the equivalent `CONFIG_FEATURE=y`, the same file
loaded with the default flag, and the same line placed BEFORE the block all give FEATURE=y.
Exit 1 while the defect is present, 0 otherwise.   Run: /venv/bin/python <this file>
"""
import os
import sys
import tempfile

from esp_kconfiglib import Kconfig

KCONFIG = 'mainmenu "t"\n\nconfig FEATURE\n    bool "feature"\n\nconfig SPEED\n    int "speed"\n    default 5\n'
RENAME = "CONFIG_OLD_FEATURE CONFIG_FEATURE\nCONFIG_OLD_SPEED CONFIG_SPEED\n"

with tempfile.TemporaryDirectory() as tmp:
    kc = os.path.join(tmp, "Kconfig")
    rn = os.path.join(tmp, "sdkconfig.rename")
    sd = os.path.join(tmp, "sdkconfig")
    open(kc, "w").write(KCONFIG)
    open(rn, "w").write(RENAME)

    def fresh():
        k = Kconfig(kc)
        k.load_rename_files([rn])
        return k

    fresh().write_config(sd, write_deprecated=True)
    base = open(sd).read()
    assert "# Deprecated options for backward compatibility" in base

    def load(text, **kw):
        open(sd, "w").write(text)
        k = fresh()
        k.load_config(sd, **kw)
        return {s.name: s.str_value for s in k.unique_defined_syms}

    want = load(base + "CONFIG_FEATURE=y\nCONFIG_SPEED=9\n", load_deprecated=True)
    rows = [
        ("old names appended, default flag", load(base + "CONFIG_OLD_FEATURE=y\nCONFIG_OLD_SPEED=9\n")),
        ("old names appended, load_deprecated=True", load(base + "CONFIG_OLD_FEATURE=y\nCONFIG_OLD_SPEED=9\n", load_deprecated=True)),
    ]
    bad = 0
    print("expected (new names appended):", want)
    for tag, got in rows:
        print(f"{tag}: {got}")
        bad += got != want
if bad:
    print("DEFECT PRESENT: an old name used after a requested deprecated block does not reach its replacement")
    sys.exit(1)
print("ok")
sys.exit(0)

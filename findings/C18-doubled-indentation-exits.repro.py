# C18: a file whose ONLY defect is 8-blank instead of 4-blank indentation: the choice member and `endchoice` after the help
# text are taken for help text (indent >= expected help indent), the choice is never closed -> log.die -> SystemExit(1);
# --replace does not even write the file, Kconfig.new stays behind, every further pass does the same.
import os, tempfile
from kconfcheck.core import validate_file
T = ('mainmenu "T"\n\n    menu "m"\n\n        choice APP_C\n            prompt "c"\n            help\n                text\n\n'
     '            config APP_C_A\n                bool "a"\n\n        endchoice\n\n    endmenu\n')
d = tempfile.mkdtemp(dir="/dev/shm")
p = os.path.join(d, "Kconfig")
open(p, "w").write(T)
assert validate_file(p)                                                            # the 4-blank file is compliant
T8 = "".join(" " * (len(l) - len(l.lstrip(" "))) + l for l in T.splitlines(True))  # every indentation doubled
open(p, "w").write(T8)
for i in range(2):
    try:
        print("pass", i + 1, "->", validate_file(p, replace=True))
    except SystemExit as e:
        print("pass", i + 1, "-> SystemExit", e.code, "| file rewritten:", open(p).read() != T8, "| directory:", sorted(os.listdir(d)))

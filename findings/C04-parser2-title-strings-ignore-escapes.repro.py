#!/usr/bin/env python3
r"""C04: parser 2 does not process backslash escapes in TITLE strings (comment / menu / mainmenu).

kconfig_grammar.py parses the string after `comment`, `menu` and `mainmenu` with pyparsing's `QuotedString('"')` /
`QuotedString("'")` WITHOUT an escape character, while every other string of the language (option-block values, expression
operands: `symbol_regex` "with \\. backslash escapes") and parser 1 treat `\x` as the character `x`.  Consequences for a
title that contains an escaped quote of its own kind, e.g.  comment "say \"hi\""  (accepted by parser 1, title `say "hi"`):

  * comment  : the string ends at the escaped quote; the optional option block that follows rewinds to the start of the
               line (KconfigOptionBlock.parseImpl walks back to the previous newline and returns that position because
               the line starts with an entry keyword), so ZeroOrMore(entries) parses the same `comment` again, forever:
               Kconfig(..., parser_version=2) NEVER RETURNS (and its memory grows).
  * menu     : RecursionError (not a KconfigError).
  * mainmenu : KconfigParseError although parser 1 accepts the file.
and for an escaped backslash (`comment "C:\\dir"`) parser 2 keeps both backslashes (`C:\\dir`) where parser 1 yields `C:\dir`.

Exit 1 while the defect is present, 0 otherwise.   Run: /venv/bin/python <this file>
"""
import os
import subprocess
import sys
import tempfile

os.environ.setdefault("KCONFIG_REPORT_VERBOSITY", "quiet")
import esp_kconfiglib as kconfiglib  # noqa: E402
from esp_kconfiglib.core import KconfigError  # noqa: E402

TAIL = '\nconfig T\n    bool "t"\n'
PROGRAMS = {
    "comment, escaped quote": ('mainmenu "T"\n\ncomment "say \\"hi\\""\n' + TAIL, 'say "hi"'),
    "comment, escaped single quote": ('mainmenu "T"\n\ncomment \'it\\\'s\'\n' + TAIL, "it's"),
    "menu, escaped quote": ('mainmenu "T"\n\nmenu "say \\"hi\\""\n' + TAIL + "\nendmenu\n", 'say "hi"'),
    "mainmenu, escaped quote": ('mainmenu "say \\"hi\\""\n' + TAIL, 'say "hi"'),
    "comment, escaped backslash": ('mainmenu "T"\n\ncomment "C:\\\\dir"\n' + TAIL, "C:\\dir"),
    "menu, escaped backslash": ('mainmenu "T"\n\nmenu "C:\\\\dir"\n' + TAIL + "\nendmenu\n", "C:\\dir"),
    "mainmenu, escaped backslash": ('mainmenu "C:\\\\dir"\n' + TAIL, "C:\\dir"),
}


def child(path: str, version: int, which: str) -> int:
    """loads one file with one parser and prints the outcome (run in a subprocess: parser 2 may never return)"""
    get = {"comment": lambda k: k.comments[0].prompt[0], "menu": lambda k: k.menus[0].prompt[0], "mainmenu": lambda k: k.top_node.prompt[0]}[which]
    try:
        k = kconfiglib.Kconfig(path, parser_version=version)
        print(f"title {get(k)!r}")
    except KconfigError as e:
        print(f"rejected ({type(e).__name__})")
    except Exception as e:  # noqa: BLE001
        print(f"raised {type(e).__name__}")
    return 0


def load(path: str, version: int, which: str) -> str:
    try:
        p = subprocess.run([sys.executable, os.path.abspath(__file__), "--child", path, str(version), which], stdout=subprocess.PIPE, stderr=subprocess.DEVNULL, text=True, timeout=10)
        return p.stdout.strip().splitlines()[-1] if p.stdout.strip() else f"child exited {p.returncode}"
    except subprocess.TimeoutExpired:
        return "DOES NOT TERMINATE (killed after 10 s)"


def main() -> int:
    bad = []
    with tempfile.TemporaryDirectory() as d:
        for i, (label, (text, expected)) in enumerate(PROGRAMS.items()):
            path = os.path.join(d, f"Kconfig.{i}")
            with open(path, "w") as f:
                f.write(text)
            res = [load(path, version, label.split(",")[0]) for version in (1, 2)]
            if res[0] != res[1] or res[0] != f"title {expected!r}":
                bad.append(f"[{label}] parser 1: {res[0]}; parser 2: {res[1]}; expected title {expected!r} from both")
    for b in bad:
        print(b)
    print("defect present" if bad else "ok: both parsers agree on escaped characters in titles")
    return 1 if bad else 0


if __name__ == "__main__":
    if len(sys.argv) == 5 and sys.argv[1] == "--child":
        sys.exit(child(sys.argv[2], int(sys.argv[3]), sys.argv[4]))
    sys.exit(main())

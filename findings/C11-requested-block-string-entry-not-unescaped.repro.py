#!/usr/bin/env python3
"""C11: load_deprecated=True -- a string entry of the deprecated block keeps its sdkconfig escapes.

write_config(write_deprecated=True) writes the alias of a string option with the value escaped (`"` -> `\\"`, `\\` -> `\\\\`),
as for the option itself.  Kconfig._load_config() un-escapes the option's line, but the synthetic symbol created for a
requested block entry (_create_new_deprecated_symbol) only strips the surrounding quotes: after

    CONFIG_NAME="q\\"x"                                    -> NAME     is  q"x
    # Deprecated options for backward compatibility
    CONFIG_OLD_NAME="q\\"x"                                -> OLD_NAME is  q\\"x   (expected q"x)
    # End of deprecated options

`OLD_NAME = NAME` evaluates to n although the block was written from NAME's own value.
Exit 1 while the defect is present, 0 otherwise.   Run: /venv/bin/python <this file>
"""
import os
import sys
import tempfile

from esp_kconfiglib import Kconfig

KCONFIG = 'mainmenu "t"\n\nconfig NAME\n    string "name"\n    default "d"\n'

with tempfile.TemporaryDirectory() as tmp:
    kc = os.path.join(tmp, "Kconfig")
    rn = os.path.join(tmp, "sdkconfig.rename")
    sd = os.path.join(tmp, "sdkconfig")
    open(kc, "w").write(KCONFIG)
    open(rn, "w").write("CONFIG_OLD_NAME CONFIG_NAME\n")
    bad = []
    for value in ['q"x', "back\\slash", "plain"]:
        k = Kconfig(kc)
        k.load_rename_files([rn])
        k.syms["NAME"].set_value(value)
        k.write_config(sd, write_deprecated=True)

        k2 = Kconfig(kc)
        k2.load_rename_files([rn])
        k2.load_config(sd, load_deprecated=True)
        new, old = k2.syms["NAME"].str_value, k2.syms["OLD_NAME"].str_value
        same = k2.eval_string("OLD_NAME = NAME")
        print(f"NAME set to {value!r}: reloaded NAME={new!r} OLD_NAME={old!r}  `OLD_NAME = NAME` -> {same}")
        if new != value or old != value or same != 2:
            bad.append(value)
if bad:
    print("DEFECT PRESENT: requested block entries do not evaluate to the value that was written for", bad)
    sys.exit(1)
print("ok")
sys.exit(0)

# input validator raises when a range bound is an option that currently has no value
import os, tempfile
d = tempfile.mkdtemp(dir="/dev/shm"); os.chdir(d)
open("Kconfig", "w").write('mainmenu "T"\nconfig A\n    bool "a"\nconfig LO\n    int "lo" if A\nconfig R\n    int "r"\n    range LO 9\n    default 3\n')
from esp_kconfiglib import Kconfig
from esp_menuconfig.formatting import check_valid, range_info
k = Kconfig("Kconfig")
print("LO =", repr(k.syms["LO"].str_value), "| dialog info line:", range_info(k.syms["R"]))
print(check_valid(k.syms["R"], "4"))           # what InputScreen.on_input_submitted calls -> ValueError

# menuconfig() computes state.shown BEFORE loading sdkconfig -> first screen shows rows that are hidden; `r` on one crashes
import os, tempfile
d = tempfile.mkdtemp(dir="/dev/shm"); os.chdir(d)
open("Kconfig", "w").write('mainmenu "T"\nconfig A\n    bool "a"\n    default y\nconfig B\n    bool "b" if A\n')
open("sdkconfig", "w").write("# CONFIG_A is not set\n")
os.environ["KCONFIG_CONFIG"] = d + "/sdkconfig"
import esp_menuconfig
from esp_kconfiglib import Kconfig
esp_menuconfig.menuconfig(Kconfig("Kconfig"), headless=True)      # same code path as the TUI up to app.run()
st = esp_menuconfig._module_state
print("shown:", [n.item.name for n in st.shown], " shown_nodes():", [n.item.name for n in st.shown_nodes(st.cur_menu)])
st.sel_node_i = 1                       # cursor on the stale row B (what _sync_sel_node_i does)
st.restore_default(st.shown[1])         # key `r`  -> ValueError in _update_menu

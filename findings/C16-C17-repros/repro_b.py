# InfoScreen -> '/' jump-to changes the model but the main list is not refreshed
import asyncio, os, tempfile
d = tempfile.mkdtemp(dir="/dev/shm"); os.chdir(d)
open("Kconfig", "w").write('mainmenu "T"\nconfig A\n    bool "a"\nmenu "M"\nconfig B\n    bool "b"\nconfig C\n    bool "c"\nendmenu\n')
os.environ["KCONFIG_CONFIG"] = d + "/sdkconfig"
import esp_menuconfig
from esp_kconfiglib import Kconfig
from esp_menuconfig.app import MenuConfigApp
from esp_menuconfig.widgets import MenuOptionList
esp_menuconfig.menuconfig(Kconfig("Kconfig"), headless=True)
app = MenuConfigApp(esp_menuconfig._module_state)
async def go():
    async with app.run_test() as p:
        await p.pause()
        await p.press("question_mark"); await p.pause()      # info screen of row A
        await p.press("slash"); await p.pause()              # search from inside the info screen
        app.screen.query_one("Input").value = "^c$"; await p.pause()
        await p.press("enter"); await p.pause()              # jump to C (inside menu M)
        ml = app.query_one("#menu-list", MenuOptionList)
        print("cur_menu:", app.state.cur_menu.prompt[0], "| model rows:", [n.item.name for n in app.state.shown],
              "| list shows:", [getattr(n.item, "name", n.prompt[0]) for n in ml._menu_nodes])
        await p.press("space"); await p.pause()              # toggles A?  (row shown) -> acts on a row that is not in the model
        print("A =", app.state.kconf.syms["A"].str_value, "C =", app.state.kconf.syms["C"].str_value)
asyncio.run(go())

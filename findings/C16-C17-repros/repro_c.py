# jump-to the promptless second definition of a named choice, then leave the menu -> ValueError in leave_menu
import os, tempfile
d = tempfile.mkdtemp(dir="/dev/shm"); os.chdir(d)
open("Kconfig", "w").write('''mainmenu "T"
choice CH
    prompt "c"
config X
    bool "x"
endchoice
choice CH
config X2
    bool "x2"
endchoice
''')
from esp_kconfiglib import Kconfig
from esp_menuconfig.model import MenuConfigState
k = Kconfig("Kconfig")
st = MenuConfigState(kconf=k, conf_filename="", minconf_filename="", conf_changed=False)
matches, _ = st.search_nodes("ch")            # what typing "ch" into the `/` dialog lists
node = k.named_choices["CH"].nodes[1]
assert node in matches
st.jump_to(node)                               # Enter in the jump-to dialog (app._handle_jump_result)
print("inside:", [n.item.name for n in st.shown], "show_all:", st.show_all)
st.leave_menu()                                # Left / Enter on "<-- Back" -> ValueError

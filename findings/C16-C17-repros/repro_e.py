# the input dialog's validator accepts values that Symbol.set_value() refuses: the typed value is silently dropped
import os, tempfile
d = tempfile.mkdtemp(dir="/dev/shm"); os.chdir(d)
open("Kconfig", "w").write('mainmenu "T"\nconfig H\n    hex "h"\n    default 0x1\nconfig I\n    int "i"\n    default 1\n')
from esp_kconfiglib import Kconfig
from esp_menuconfig.formatting import check_valid
k = Kconfig("Kconfig")
for name, typed, passed_on in (("H", "-5", "0x-5"), ("H", "1_0", "0x1_0"), ("I", "1_0", "1_0")):   # passed_on: what _apply_input builds
    s = k.syms[name]
    print(name, repr(typed), "validator:", check_valid(s, typed)[0], "| set_value:", s.set_value(passed_on), "| value now:", s.str_value)

# needs_save() is True right after a successful save: the baseline of an option that drops out of the file is never cleared
import os, tempfile
d = tempfile.mkdtemp(dir="/dev/shm"); os.chdir(d)
open("Kconfig", "w").write('mainmenu "T"\nconfig A\n    bool "a"\n    default y\nconfig B\n    bool "b" if A\n')
os.environ["KCONFIG_CONFIG"] = d + "/sdkconfig"
import esp_menuconfig
from esp_kconfiglib import Kconfig
k = Kconfig("Kconfig")
esp_menuconfig.menuconfig(k, headless=True)
st = esp_menuconfig._module_state
def save():                                   # what MenuConfigApp.action_save does
    k.write_config(st.conf_filename); st.reload_sdkconfig_file(st.conf_filename)
st.set_val(k.syms["B"], 2); save()            # B=y, `s`
print("after 1st save:", st.needs_save())     # False
st.set_val(k.syms["A"], 0); save()            # A=n hides B (B is no longer written), `s`
print("after 2nd save:", st.needs_save(), "| B baseline:", k.syms["B"]._sdkconfig_value, "| B now:", k.syms["B"].str_value)
print(open("sdkconfig").read())

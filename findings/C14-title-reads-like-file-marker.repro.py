#!/usr/bin/env python
"""C14 (what the client sees is what `save` writes): a menu / comment title that reads like one of the saved file's own
marker lines is read back as that marker.

write_config() renders the header of a menu or comment as the three lines `#`, `# <title>`, `#`.  The loader treats
 * `# Deprecated options for backward compatibility`  as the start of the deprecated-options block: every following line
   up to `# End of deprecated options` (or the end of the file) is skipped, so the user values written after a menu with
   that title are lost;
 * `# CONFIG_<NAME> is not set` as an assignment: a menu / comment titled "CONFIG_VICTIM is not set" gives the bool
   option VICTIM the user value n (even when the file says CONFIG_VICTIM=y further down: the first assignment is kept
   as the baseline and reported, and with nothing else in the file the option is no longer "default").
So a config server restarted on the file it just saved reports other values / defaults than its client holds.

Run: /venv/bin/python C14-title-reads-like-file-marker.repro.py     exit 1 = defect present, 0 = absent
(PYTHONPATH=<copy of the repository> to try a patched copy)
"""

import json
import os
import subprocess
import sys
import tempfile

KCONFIG = """\
mainmenu "T"

menu "Deprecated options for backward compatibility"
    config INDEP
        int "inside the menu"
        default 4
endmenu

config AFTERDEP
    int "after the menu"
    default 6

menu "CONFIG_VICTIM is not set"
    config INM
        int "inm"
        default 4
endmenu

config VICTIM
    bool "victim"

comment "CONFIG_V2 is not set"

config V2
    bool "v2"
"""


def talk(kconfig, sdkconfig, requests):
    env = dict(os.environ, KCONFIG_REPORT_VERBOSITY="quiet")
    p = subprocess.run(
        [sys.executable, "-m", "kconfserver", "--kconfig", kconfig, "--config", sdkconfig, "--version", "3"],
        input="".join(json.dumps(r) + "\n" for r in requests),
        stdout=subprocess.PIPE,
        stderr=subprocess.DEVNULL,
        text=True,
        env=env,
        cwd=os.path.dirname(kconfig),
    )
    return [json.loads(ln) for ln in p.stdout.splitlines() if ln.startswith("{")]


def main():
    problems = []
    with tempfile.TemporaryDirectory() as tmp:
        kconfig = os.path.join(tmp, "Kconfig")
        sdkconfig = os.path.join(tmp, "sdkconfig")
        with open(kconfig, "w") as f:
            f.write(KCONFIG)
        open(sdkconfig, "w").close()
        replies = talk(
            kconfig,
            sdkconfig,
            [{"version": 3, "set": {"INDEP": 9, "AFTERDEP": 8, "VICTIM": True, "V2": True}}, {"version": 3, "save": None}],
        )
        client = {c: dict(replies[0].get(c, {})) for c in ("values", "ranges", "visible", "defaults")}
        for rep in replies[1:]:
            assert "error" not in rep, rep
            for c in client:
                client[c].update(rep.get(c, {}))
        fresh = talk(kconfig, sdkconfig, [])[0]
        for c in ("values", "defaults", "visible", "ranges"):
            for k, v in fresh[c].items():
                if client[c].get(k) != v:
                    problems.append(f"{c}[{k}]: client holds {client[c].get(k)!r}, server restarted on the saved file reports {v!r}")
        # the start state alone: nothing set, save, restart
        open(sdkconfig, "w").close()
        first = talk(kconfig, sdkconfig, [{"version": 3, "save": None}])[0]
        again = talk(kconfig, sdkconfig, [])[0]
        for c in ("values", "defaults"):
            for k, v in again[c].items():
                if first[c].get(k) != v:
                    problems.append(f"untouched configuration, {c}[{k}]: first server {first[c].get(k)!r}, restarted on its saved file {v!r}")
    for p in problems:
        print("  -", p)
    print("DEFECT PRESENT" if problems else "defect absent")
    return 1 if problems else 0


if __name__ == "__main__":
    sys.exit(main())

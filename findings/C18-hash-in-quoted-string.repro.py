# C18: compliant file refused ("config name a should be all uppercase") because check_name_sanity cuts the line at a '#'
# inside a quoted string; the suggestion written by --replace is the truncated line with every 'a' upper-cased.
import os, tempfile
from kconfcheck.core import validate_file
T = 'config APP_S\n    string "s"\n    default "w x" if APP_D = "a#b"\n'
p = os.path.join(tempfile.mkdtemp(dir="/dev/shm"), "Kconfig.body")
open(p, "w").write(T)
print(validate_file(p, replace=True))     # False
print(open(p).read())                     # last line is now:     defAult "w x" if APP_D = "A

#!/venv/bin/python
"""C16: menuconfig reports "needs saving" right after loading / saving a file it wrote itself, when a choice has a member that
is currently hidden (conditional prompt or unmet `depends on`) and another, non-default member is selected.

Mechanism: the file carries `CONFIG_MB=y` (user value).  _load_config() applies it through Symbol.set_value(), which --
as for an interactive selection -- rewrites the baseline of every OTHER member to ("n", not-a-default), also of the hidden
member MC that the file does not mention at all (write_config never writes it).  needs_save() then sees MC with a
"user value in the file" baseline but an active default value and answers True, although the bytes on disk are exactly
what saving would write.  Saving does not help (the reload after the save does the same): the session can never become
clean, and the quit key always asks "Save configuration?".

Exit 1 while the defect is present, 0 otherwise.
"""

import os
import sys
import tempfile

os.environ["KCONFIG_REPORT_VERBOSITY"] = "quiet"
for _k in ("IDF_TARGET", "IDF_INIT_VERSION", "IDF_VERSION", "KCONFIG_DEFAULTS_POLICY"):
    os.environ.pop(_k, None)

KCONFIG = """\
mainmenu "T"

config F
    bool "f"
    default y

config G
    bool "g"

choice MODE
    prompt "m"
    default MA

    config MA
        bool "ma"

    config MB
        bool "mb"
        depends on F

    config MC
        bool "mc" if G
endchoice
"""


def main() -> int:
    tmp = tempfile.mkdtemp(prefix="c16_hidden_member_")
    kpath = os.path.join(tmp, "Kconfig")
    sdk = os.path.join(tmp, "sdkconfig")
    with open(kpath, "w") as f:
        f.write(KCONFIG)
    os.environ["KCONFIG_CONFIG"] = sdk

    import esp_menuconfig
    from esp_kconfiglib import Kconfig
    from esp_menuconfig.idf_headers import idf_sdkconfig_header

    # 1. the tool writes a file: defaults, except that the user picked MB (MC is hidden: G is n)
    k1 = Kconfig(kpath)
    assert k1.syms["MB"].set_value("y")
    k1.write_config(sdk, header=idf_sdkconfig_header(), save_old=False, write_deprecated=False)
    with open(sdk) as f:
        written = f.read()

    # 2. a fresh menuconfig session on that file
    k2 = Kconfig(kpath)
    esp_menuconfig.menuconfig(k2, headless=True)
    state = esp_menuconfig._module_state
    would_write = k2._config_contents(idf_sdkconfig_header())
    same_bytes = would_write == written
    dirty = state.needs_save()
    mc = k2.syms["MC"]
    print("file written by the tool:\n" + written)
    print(f"saving now would write the same bytes: {same_bytes}")
    print(f"needs_save() right after loading it:    {dirty}")
    print(f"MC (hidden, not in the file): baseline {mc._sdkconfig_value!r}, loaded_as_default {mc._loaded_as_default}")
    if not same_bytes:
        print("unexpected: the tool-written file is not a fixpoint (another defect)")
        return 1
    if dirty:
        print("DEFECT: needs_save() is True right after loading a file the tool wrote (and stays True after every save)")
        return 1
    print("ok")
    return 0


if __name__ == "__main__":
    sys.exit(main())

# C18: compliant file (every option name starts with APP_E) is refused: "Common prefix 'APP_E1_A' should start with APP_E0".
# A menu (or an unnamed choice) inside `if` is compared with the parent's prefix SO FAR, which after a single option is that
# option's whole name.  The verdict depends on the ORDER of the entries: the same entries with the option last are accepted.
import os, tempfile
from kconfcheck.core import validate_file
OPT = 'config APP_E0\n    bool "e0"\n'
BLK = 'if APP_K\n\n    menu "m"\n\n        config APP_E1_A\n            bool "a"\n\n    endmenu\n\nendif\n'
d = tempfile.mkdtemp(dir="/dev/shm")
p = os.path.join(d, "Kconfig.body")
open(p, "w").write(OPT + "\n" + BLK)
print("option first:", validate_file(p), sorted(os.listdir(d)))     # False, Kconfig.body.new left behind
os.remove(p + ".new")
open(p, "w").write(BLK + "\n" + OPT)
print("option last: ", validate_file(p), sorted(os.listdir(d)))     # True

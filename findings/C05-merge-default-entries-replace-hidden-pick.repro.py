#!/usr/bin/env python3
"""C05: merging (load_config(replace=False)) a file in which the members of a choice appear only as `# default:` entries
REPLACES the user's pick by the member that happens to be selected at that moment.

Tree: the user's pick M1 is currently hidden (its prompt depends on A, A is n), so the choice falls back to M2.  A
tool-written file of the untouched tree (members default-marked: nothing in it assigns a member) is merged.  The user
then switches A on: M1 is visible again and, being the user's pick, must be the selected member ("the selected member is
the user's pick if that member is visible").  Observed: M2 -- Choice.resolve_defaults() turned the momentary selection
into user values (`set_value_and_source(sym, sym.bool_value)` for every member when a user selection exists), which
moves Choice._user_selection from the hidden M1 to M2.  Both KCONFIG_DEFAULTS_POLICY values behave alike.

exit 1 while the defect is present, 0 otherwise."""
import os
import sys
import tempfile

KCONFIG = """\
mainmenu "demo"

config A
    bool "a"

choice
    prompt "c"
    default M1

    config M1
        bool "m1" if A
    config M2
        bool "m2"
    config M3
        bool "m3"
endchoice
"""

bad = []
for policy in ("sdkconfig", "kconfig"):
    os.environ["KCONFIG_DEFAULTS_POLICY"] = policy
    os.environ["KCONFIG_REPORT_VERBOSITY"] = "quiet"
    from esp_kconfiglib import Kconfig

    with tempfile.TemporaryDirectory() as tmp:
        kpath = os.path.join(tmp, "Kconfig")
        with open(kpath, "w") as f:
            f.write(KCONFIG)
        # the file the tool writes for the untouched tree
        spath = os.path.join(tmp, "sdkconfig")
        Kconfig(kpath).write_config(spath)
        with open(spath) as f:
            text = f.read()
        assert "# default:\nCONFIG_M2=y" in text, text

        # control: the same edits without the merge
        k = Kconfig(kpath)
        k.syms["M1"].set_value("y")
        k.syms["A"].set_value("y")
        control = [n for n in ("M1", "M2", "M3") if k.syms[n].str_value == "y"]

        k = Kconfig(kpath)
        k.syms["M1"].set_value("y")  # the user's pick; hidden while A is n
        assert [n for n in ("M1", "M2", "M3") if k.syms[n].str_value == "y"] == ["M2"]
        k.load_config(spath, replace=False)  # nothing in the file assigns a member
        k.syms["A"].set_value("y")  # the pick becomes visible
        got = [n for n in ("M1", "M2", "M3") if k.syms[n].str_value == "y"]
        print(f"policy={policy}: without the merge {control}, with the merge {got}")
        if control != ["M1"] or got != ["M1"]:
            bad.append(policy)

if bad:
    print("DEFECT: a merged file with only default-marked member entries replaced the user's hidden pick:", bad)
    sys.exit(1)
print("ok")

#!/usr/bin/env python3
"""C04: a quoted value that is one bare reference to an UNSET environment variable ("$NAME") is kept verbatim by
parser 1 (constant "$NAME", sdkconfig CONFIG_T="$NAME") but re-spelt with curly brackets by parser 2 (constant
"${NAME}", sdkconfig CONFIG_T="${NAME}").  The same reference embedded in a longer string ("x-$NAME") stays "$NAME" under
both parsers.  Exit 1 while the two parsers disagree, 0 otherwise."""
import os
import sys
import tempfile

os.environ.setdefault("KCONFIG_REPORT_VERBOSITY", "quiet")
os.environ.pop("C04_UNSET_VAR", None)

from esp_kconfiglib import Kconfig  # noqa: E402
from esp_kconfiglib.core import expr_str  # noqa: E402

KCONFIG = '''mainmenu "T"

config S
    string "s"
    default "v"

config T
    string "t"
    default "$C04_UNSET_VAR"

config U
    bool "u"
    depends on S = "$C04_UNSET_VAR"

config E
    string "e"
    default "x-$C04_UNSET_VAR"
'''


def view(path, version):
    k = Kconfig(path, parser_version=version)
    return {
        "T.default": expr_str(k.syms["T"].defaults[0][0]),
        "T.value": k.syms["T"].str_value,
        "U.dep": expr_str(k.syms["U"].direct_dep),
        "E.value": k.syms["E"].str_value,
        "sdkconfig": [l for l in k._config_contents(None).splitlines() if l.startswith("CONFIG_T=")],
    }


def main():
    with tempfile.TemporaryDirectory() as d:
        p = os.path.join(d, "Kconfig")
        with open(p, "w") as f:
            f.write(KCONFIG)
        v1, v2 = view(p, 1), view(p, 2)
    if v1 != v2:
        print("parsers disagree on a bare reference to an unset environment variable:")
        for key in v1:
            if v1[key] != v2[key]:
                print(f"  {key}: parser 1 {v1[key]!r} | parser 2 {v2[key]!r}")
        return 1
    print("parsers agree")
    return 0


if __name__ == "__main__":
    sys.exit(main())

# C18 (control files, outside the statement proper): kconfcheck crashes with "IndexError: pop from empty list" instead of
# reporting the documented problem.  check_name_and_update_prefix() raises the "is N characters long" InputError BEFORE it does
# the prefix-stack bookkeeping of the line (recording the name; opening a new prefix level for `choice`).  validate_file() catches
# the InputError and carries on with the next line, so the stack is one level short: the matching `endchoice` pops the level of
# the enclosing block, and in a file without `mainmenu` (every component Kconfig / Kconfig.projbuild) a later `endchoice` /
# `endmenu` pops from an empty list.  Exit 1 while the defect is present, 0 otherwise.
import os, shutil, sys, tempfile
from kconfcheck.core import validate_file

LONG = "APP_PICK_" + "Z" * 42  # 51 characters, one over the documented maximum
FILES = {
    "over-long choice name inside a menu": f'menu "m"\n\n    choice {LONG}\n        prompt "pick"\n\n        config APP_PICK_A\n            bool "a"\n\n    endchoice\n\nendmenu\n',
    "over-long choice and member names": f'choice {LONG}\n    prompt "pick"\n\n    config {LONG}A\n        bool "a"\n\nendchoice\n',
}
bad = 0
for what, text in FILES.items():
    d = tempfile.mkdtemp(dir="/dev/shm" if os.path.isdir("/dev/shm") else None)
    p = os.path.join(d, "Kconfig.projbuild")
    open(p, "w").write(text)
    try:
        ok = validate_file(p)
        print(f"{what}: validate_file returned {ok} (expected: False, problem reported)")
        bad += ok is not False
    except BaseException as e:  # noqa: BLE001
        print(f"{what}: validate_file raised {type(e).__name__}: {e}")
        bad += 1
    finally:
        shutil.rmtree(d, ignore_errors=True)
sys.exit(1 if bad else 0)

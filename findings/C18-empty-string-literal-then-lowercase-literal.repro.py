#!/usr/bin/env python
"""C18: a compliant Kconfig file whose condition compares with the EMPTY string literal and, later on the same line, with
another string literal is reported as failing ("config name x should be all uppercase"), a Kconfig.new is left behind and
--replace rewrites the literal "x" into "X" (the configuration changes).

Cause: kconfcheck/core.py IndentAndNameChecker: symbol = r"\\w+|\\".+?\\"|'.+?'" needs at least one character between the
quotes, so in `APP_A = "" || APP_A = "x"` the token found is `"" || APP_A = "` and the x behind it is taken for a
lower-case config name.

exit 1 while the defect is present, 0 otherwise.  Run with /venv/bin/python.
"""
import os
import subprocess
import sys
import tempfile

KCONFIG = """\
mainmenu "Demo"

    config APP_A
        string "a"
        default ""

    config APP_B
        bool "b"
        depends on APP_A = "" || APP_A = "x"
"""


def values(path):
    code = (
        "import sys, esp_kconfiglib\n"
        "k = esp_kconfiglib.Kconfig(sys.argv[1], parser_version=int(sys.argv[2]))\n"
        "print([(s.name, esp_kconfiglib.core.expr_str(s.direct_dep)) for s in k.unique_defined_syms])\n"
    )
    out = []
    for v in ("1", "2"):
        p = subprocess.run([sys.executable, "-c", code, path, v], capture_output=True, text=True)
        out.append(p.stdout.strip() if p.returncode == 0 else "PARSE ERROR")
    return out


def main():
    problems = []
    with tempfile.TemporaryDirectory() as tmp:
        path = os.path.join(tmp, "Kconfig")
        with open(path, "w", encoding="utf-8", newline="\n") as f:
            f.write(KCONFIG)
        before = values(path)
        if "PARSE ERROR" in before or before[0] != before[1]:
            print("repro is broken: the parsers do not accept / agree on the input", before)
            return 2
        p = subprocess.run([sys.executable, "-m", "kconfcheck", path], capture_output=True, text=True)
        if p.returncode != 0:
            problems.append("compliant file reported as failing: " + (p.stdout + p.stderr).strip().splitlines()[0])
        if os.path.exists(path + ".new"):
            problems.append("Kconfig.new left behind")
            os.remove(path + ".new")
        subprocess.run([sys.executable, "-m", "kconfcheck", "--replace", path], capture_output=True, text=True)
        if open(path, encoding="utf-8").read() != KCONFIG:
            problems.append("--replace changed the compliant file")
        after = values(path)
        if after != before:
            problems.append(f"the configuration changed: {before[0]} -> {after[0]}")
    for x in problems:
        print("DEFECT:", x)
    print("defect present" if problems else "no defect")
    return 1 if problems else 0


if __name__ == "__main__":
    sys.exit(main())

#!/usr/bin/env python3
"""C11 (found by the aliases of undefined replacements): a SECOND assignment to a string symbol with a malformed literal raises.

_load_config() records a repeated assignment in the MultipleAssignmentArea BEFORE it checks the string literal:

    new_value=unescape(_conf_string_match(val).group(1)) if sym.orig_type == STRING else val

so when the name was already assigned in the same file and the new value is not a quoted string, `_conf_string_match(val)` is
None and load_config() dies with AttributeError: 'NoneType' object has no attribute 'group' -- whereas the FIRST such
assignment is answered with the warning "malformed string literal in assignment to S. Assignment ignored.".

  (a) any string option:                          CONFIG_S="a"  /  CONFIG_S=y
  (b) load_deprecated=True, no option involved:   the same string entry in two deprecated blocks (a file to which a tool-written
      block was appended twice), then an ordinary line that uses the old name with a bool value:
          # Deprecated options for backward compatibility
          CONFIG_OLD_U="v w"
          # End of deprecated options
          # Deprecated options for backward compatibility
          CONFIG_OLD_U="v w"
          # End of deprecated options
          CONFIG_OLD_U=y
      (OLD_U is mapped to an option that is not defined, or not mapped at all: the line is an unknown-symbol assignment)
Exit 1 while the defect is present, 0 otherwise.   Run: /venv/bin/python <this file>
"""
import os
import sys
import tempfile

os.environ.setdefault("KCONFIG_REPORT_VERBOSITY", "quiet")

from esp_kconfiglib import Kconfig

KCONFIG = 'mainmenu "t"\n\nconfig S\n    string "s"\n    default "d"\n\nconfig B\n    bool "b"\n'
RENAME = "CONFIG_OLD_U CONFIG_UNDEFINED\n"
BLOCK = '# Deprecated options for backward compatibility\nCONFIG_OLD_U="v w"\n# End of deprecated options\n'

bad = []
with tempfile.TemporaryDirectory() as tmp:
    kc = os.path.join(tmp, "Kconfig")
    rn = os.path.join(tmp, "sdkconfig.rename")
    sd = os.path.join(tmp, "sdkconfig")
    open(kc, "w").write(KCONFIG)
    open(rn, "w").write(RENAME)

    def load(text, rename, **kw):
        open(sd, "w").write(text)
        k = Kconfig(kc)
        if rename:
            k.load_rename_files([rn])
        k.load_config(sd, replace=True, **kw)
        return k

    for label, text, rename, kw, probe in (
        ("(a) string option assigned twice, second literal malformed", 'CONFIG_S="a"\nCONFIG_S=y\n', False, {}, lambda k: k.syms["S"].str_value == "a"),
        ("(b) string entry in two requested blocks, then a bool line (mapped to an undefined option)", BLOCK + BLOCK + "CONFIG_OLD_U=y\n", True,
         {"load_deprecated": True}, lambda k: k.eval_string('OLD_U = "v w"') == 2),
        ("(b') the same without a rename table", BLOCK + BLOCK + "CONFIG_OLD_U=y\n", False, {"load_deprecated": True}, lambda k: k.eval_string('OLD_U = "v w"') == 2),
    ):
        try:
            k = load(text, rename, **kw)
        except Exception as e:  # noqa: BLE001
            bad.append(f"{label}: load_config raised {type(e).__name__}: {e}")
            continue
        if not probe(k):
            bad.append(f"{label}: the well-formed first value is not in force")

if bad:
    print("DEFECT PRESENT:")
    for b in bad:
        print("  -", b)
    sys.exit(1)
print("ok: a malformed repeated string assignment is ignored with a warning")
sys.exit(0)

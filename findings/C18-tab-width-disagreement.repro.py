# C18 (known finding): kconfcheck rewrites a leading tab as 4 blanks; the parsers expand it to the next multiple of 8.
# Input: first help line indented by two tabs (column 16 for the parsers), the next line (a `#` comment, or a `config`)
# indented to column 12 (tab + 4 blanks, or 12 blanks) -> OUTSIDE the help text.  After --replace the help line sits at
# column 8 and the comment line at column 8 (comment lines are never re-indented) -> INSIDE the help text.
# Exit 1 while --replace changes what the file means.
import os, sys, tempfile
from esp_kconfiglib import Kconfig
from kconfcheck.core import validate_file

BODY = ('choice APP_C\n    prompt "pick"\n    default APP_C_A\n    help\n\t\tChoice help.\n\n\t    # note about APP_C_A\n'
        '    config APP_C_A\n        bool "a"\n\nendchoice\n')
d = tempfile.mkdtemp(dir="/dev/shm")
open(os.path.join(d, "Kconfig"), "w").write('mainmenu "T"\n\n    source "Kconfig.body"\n')
p = os.path.join(d, "Kconfig.body")
open(p, "w").write(BODY)
os.environ["KCONFIG_REPORT_VERBOSITY"] = "quiet"


def help_text():
    cwd = os.getcwd()
    os.chdir(d)
    try:
        return Kconfig("Kconfig").named_choices["APP_C"].nodes[0].help
    finally:
        os.chdir(cwd)


before = help_text()
for _ in range(3):
    if validate_file(p, replace=True):
        break
after = help_text()
print("help before:", repr(before))
print("help after :", repr(after))
sys.exit(1 if before != after else 0)

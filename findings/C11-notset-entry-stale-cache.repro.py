#!/usr/bin/env python3
"""C11: what a requested deprecated block does to an old name depends on whether values were read before the load.

A Kconfig expression still mentions the old name OLD_I (mapped to an int option), so the name has a node-less Symbol whose
value -- like that of every undefined symbol -- is its own name.  A file whose deprecated block says `# CONFIG_OLD_I is not set`
is loaded with load_deprecated=True: Kconfig._load_config()._create_new_deprecated_symbol() turns the Symbol into an int symbol
with a "Deprecated option" menu node and then assigns "n", which an int symbol refuses.  Type and menu node have changed, but
nothing invalidates the cached values: if the instance was used before the load (defaults merged and values read, as a build
does), OLD_I keeps the cached value "OLD_I" and `default y if OLD_I < 8` stays n; on an instance that was not read before,
the same load gives OLD_I == "" and the default is y.  The same happens for hex and string aliases.

Exit 1 while the defect is present, 0 otherwise.   Run: /venv/bin/python <this file>
"""
import os
import sys
import tempfile

os.environ.setdefault("KCONFIG_REPORT_VERBOSITY", "quiet")
from esp_kconfiglib import Kconfig  # noqa: E402

KCONFIG = """\
mainmenu "T"

config NEW_I
    int "i"
    default 5

config LEGACY_I
    bool
    default y if OLD_I < 8
"""
RENAME = "CONFIG_OLD_I CONFIG_NEW_I\n"
SDKCONFIG = """\
CONFIG_NEW_I=5

# Deprecated options for backward compatibility
# CONFIG_OLD_I is not set
# End of deprecated options
"""


def run(d, read_first):
    k = Kconfig(os.path.join(d, "Kconfig"))
    k.load_rename_files([os.path.join(d, "sdkconfig.rename")])
    if read_first:
        for s in k.unique_defined_syms:
            s.str_value
    k.load_config(os.path.join(d, "sdkconfig"), load_deprecated=True)
    return {"OLD_I": k.syms["OLD_I"].str_value, "LEGACY_I": k.syms["LEGACY_I"].str_value, "eval(OLD_I < 8)": k.eval_string("OLD_I < 8")}


def main() -> int:
    with tempfile.TemporaryDirectory() as d:
        for name, text in (("Kconfig", KCONFIG), ("sdkconfig.rename", RENAME), ("sdkconfig", SDKCONFIG)):
            with open(os.path.join(d, name), "w") as f:
                f.write(text)
        fresh = run(d, False)
        used = run(d, True)
    if fresh != used:
        print("DEFECT: the same load_config(load_deprecated=True) gives different results depending on an earlier read")
        print("  instance not read before the load:", fresh)
        print("  instance read before the load:    ", used)
        return 1
    print("ok: reading values before the load is not observable", fresh)
    return 0


if __name__ == "__main__":
    sys.exit(main())

# C12: sync_deps() does not touch the .cdep of a deprecated alias when the option it renames was removed from the tree
import os, tempfile
from esp_kconfiglib import Kconfig
d = tempfile.mkdtemp(dir="/dev/shm"); deps = os.path.join(d, "deps")
ren = os.path.join(d, "sdkconfig.rename"); open(ren, "w").write("CONFIG_OLDOPT CONFIG_NEWOPT\n")
def sync(body):
    open(os.path.join(d, "Kconfig"), "w").write('mainmenu "T"\n' + body)
    k = Kconfig(os.path.join(d, "Kconfig")); k.load_rename_files([ren]); k.sync_deps(deps)
sync('config NEWOPT\n    bool "new"\n    default y\n')          # build 1: CONFIG_NEWOPT=y, CONFIG_OLDOPT visible as its alias
for f in ("newopt.cdep", "oldopt.cdep"): os.utime(os.path.join(deps, f), (1, 1))
sync('config OTHER\n    bool "other"\n')                        # build 2: NEWOPT dropped from the tree
for f in ("newopt.cdep", "oldopt.cdep"):
    print(f, "touched" if os.stat(os.path.join(deps, f)).st_mtime != 1 else "NOT touched")

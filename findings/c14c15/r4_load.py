# C14 (load != restart): reloading a file in a live session loses the value of a multiply-defined option
import os, tempfile
os.environ["KCONFIG_REPORT_VERBOSITY"] = "quiet"
from esp_kconfiglib import Kconfig
d = tempfile.mkdtemp(); kc = f"{d}/Kconfig"; snap = f"{d}/snap"
open(kc, "w").write('mainmenu "T"\nconfig C\n    bool "c"\nconfig D\n    bool "d"\nconfig X\n    int "x" if C\n    default 1 if C\n'
                    'if D\nconfig X\n    int "x again"\nendif\nconfig X\n    int\n    default 9\n')
k = Kconfig(kc); k.write_config(snap)       # all defaults: "# default:" CONFIG_X=9
k.syms["C"].set_value(2)                    # X = 1
k.load_config(snap)                         # back to the saved file (what {"load": ...} does)
print("live instance after load: X=%r" % k.syms["X"].str_value)      # ''  (X is then missing from `values` and from the next save)
k2 = Kconfig(kc); k2.load_config(snap)
print("fresh instance, same file: X=%r" % k2.syms["X"].str_value)    # '9'

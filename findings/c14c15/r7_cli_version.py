# C14 conformance: --version is ignored (main() does not pass it to run_server)
from srv import serve
print(serve('mainmenu "T"\nconfig A\n    bool "a"\n', [], extra=("--version", "1"))[1][0])   # {"version": 3, ... "visible": ...}

import os, subprocess, sys, tempfile
def serve(kconfig, requests, sdkconfig="", extra=()):
    d = tempfile.mkdtemp(); open(f"{d}/Kconfig", "w").write(kconfig); open(f"{d}/sdkconfig", "w").write(sdkconfig)
    p = subprocess.run([sys.executable, "-m", "kconfserver", "--kconfig", "Kconfig", "--config", f"{d}/sdkconfig", *extra], cwd=d,
                       input="".join(r.replace("$D", d) + "\n" for r in requests), capture_output=True, text=True)
    return d, p.stdout.replace(d, "$D").splitlines()

# C14: a range whose condition turns false is never retracted
from srv import serve
K = 'mainmenu "T"\nconfig A\n    bool "a"\nconfig X\n    int "x"\n    range 0 10 if A\n    default 3\n'
d, out = serve(K, ['{"version":3,"set":{"A":true}}', '{"version":3,"set":{"A":false}}', '{"version":3,"save":null}'])
print("\n".join(out))            # reply 2 announces ranges {"X":[0,10]}, reply 3 has "ranges": {}  -> client keeps [0,10]
print(serve(K, [], open(f"{d}/sdkconfig").read())[1][0])   # restarted server: "ranges": {} although X is visible

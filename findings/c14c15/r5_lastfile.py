# C15: a failed load (or save) still switches the file used by later `load`/`save` null
import os
from srv import serve
K = 'mainmenu "T"\nconfig I\n    int "i"\n    default 7\n'
d, out = serve(K, ['{"version":3,"load":"$D/typo"}', '{"version":3,"set":{"I":1}}', '{"version":3,"save":null}'])
print("\n".join(out))
print("sdkconfig:", repr(open(f"{d}/sdkconfig").read()), " typo exists:", os.path.exists(f"{d}/typo"))   # I=1 went to 'typo'

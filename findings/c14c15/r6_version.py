# C15: non-integer versions are accepted, 1e999 makes the reply invalid JSON; wrong JSON types are applied to string/hex options
from srv import serve
K = 'mainmenu "T"\nconfig S\n    string "s"\n    default "s0"\nconfig H\n    hex "h"\n    default 0x10\n'
for req in ('{"version":true,"set":{"S":"a"}}', '{"version":1.5,"set":{"S":"b"}}', '{"version":1e999}', '{"version":3,"set":{"S":null}}',
            '{"version":3,"set":{"S":["x"]}}', '{"version":3,"set":{"H":true}}'):
    print(req, "->", serve(K, [req])[1][1])

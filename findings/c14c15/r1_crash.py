# C15: type-confused request values kill kconfserver (each request against a fresh server)
import json, os, subprocess, sys, tempfile
d = tempfile.mkdtemp(); open(f"{d}/Kconfig", "w").write('mainmenu "T"\nconfig H\n    hex "h"\n    default 0x10\nconfig I\n    int "i"\n    default 7\n')
open(f"{d}/sdkconfig", "w").write("")
for req in ['{"version":3,"set":{"H":1.5}}', '{"version":3,"set":{"H":null}}', '{"version":"3"}', '{"version":null}', '{"version":3,"set":5}',
            '{"version":3,"set":[]}', '{"version":3,"reset":5}', '{"version":3,"reset":[1]}', '{"version":3,"reset":["y"]}', '{"version":3,"reset":["7"]}',
            '{"version":3,"load":5}', '5', 'null', '"version"']:
    p = subprocess.run([sys.executable, "-m", "kconfserver", "--kconfig", "Kconfig", "--config", f"{d}/sdkconfig"], cwd=d,
                       input=req + '\n{"version":3,"set":{"I":1}}\n', capture_output=True, text=True)
    print(f"{req:34} exit={p.returncode} stdout lines={len(p.stdout.splitlines())} (expected 3)  {p.stderr.strip().splitlines()[-1][:70]}")

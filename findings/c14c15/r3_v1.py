# C14 (protocol 1): an option that becomes visible again with an unchanged value stays null (or false from the initial message) in the client
from srv import serve
K = 'mainmenu "T"\nconfig V\n    bool "v"\n    default y\nmenu "M"\n    visible if V\nconfig R\n    string "r"\n    default "r0"\nendmenu\n'
print("\n".join(serve(K, ['{"version":1,"set":{"V":false}}', '{"version":1,"set":{"V":true}}'])[1]))
# reply 1: "R": null (hidden); reply 2: values {"V": true} only -> R is visible again with value "r0" but the client still holds null

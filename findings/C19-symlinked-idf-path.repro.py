#!/usr/bin/env python3
"""C19: the verdict of `kconfcheck --check deprecated` depends on whether IDF_PATH names the IDF root through a symbolic link.

    <tmp>/idf/CMakeLists.txt                              project(esp-idf ...)      (as in the real ESP-IDF)
    <tmp>/idf/examples/common/sdkconfig.rename            CONFIG_ORPHAN_OLD         (orphan: nobody's scope)
    <tmp>/idf/sdkconfig.defaults                          CONFIG_ORPHAN_OLD=y       -> must be OK
    <tmp>/esp-idf -> idf                                  symbolic link

With IDF_PATH=<tmp>/idf the file is OK.  With IDF_PATH=<tmp>/esp-idf (and the file named by its real path, which is what a
pre-commit hook passes: relative names resolved against os.getcwd()) _find_project_root() returns <tmp>/idf, which is
compared as a STRING with os.path.abspath(IDF_PATH) = <tmp>/esp-idf: the IDF root is taken for an ordinary user project, its
whole tree is walked for 'local' rename files and the orphan rename file flags the top-level file.

exit 1 while the defect is present, 0 otherwise.
"""
import os
import subprocess
import sys
import tempfile


def write(path, text):
    os.makedirs(os.path.dirname(path), exist_ok=True)
    with open(path, "w") as f:
        f.write(text)


def verdict(idf_path, file, cwd):
    env = dict(os.environ, IDF_PATH=idf_path, COLUMNS="2000")
    p = subprocess.run([sys.executable, "-m", "kconfcheck", "--check", "deprecated", file], cwd=cwd, env=env,
                       stdout=subprocess.PIPE, stderr=subprocess.STDOUT, text=True)  # fmt: skip
    return "OK" if f"{file}: OK" in p.stdout else "flagged" if "are deprecated" in p.stdout else p.stdout


def main():
    with tempfile.TemporaryDirectory() as tmp:
        tmp = os.path.realpath(tmp)
        idf = os.path.join(tmp, "idf")
        write(os.path.join(idf, "CMakeLists.txt"), "cmake_minimum_required(VERSION 3.22)\n\nproject(esp-idf C CXX ASM)\n")
        write(os.path.join(idf, "examples/common/sdkconfig.rename"), "CONFIG_ORPHAN_OLD    CONFIG_ORPHAN_NEW\n")
        f = os.path.join(idf, "sdkconfig.defaults")
        write(f, "CONFIG_ORPHAN_OLD=y\n")
        link = os.path.join(tmp, "esp-idf")
        os.symlink("idf", link)
        plain = verdict(idf, f, idf)
        linked = verdict(link, f, idf)
        print(f"IDF_PATH=<tmp>/idf     : {plain}")
        print(f"IDF_PATH=<tmp>/esp-idf : {linked}   (esp-idf -> idf)")
        if plain != "OK":
            print("the plain spelling is not OK: the repro decides nothing")
            return 0
        if linked != plain:
            print("DEFECT: the verdict depends on the spelling of IDF_PATH")
            return 1
    print("fixed")
    return 0


if __name__ == "__main__":
    sys.exit(main())

#!/usr/bin/env python
"""C18: a file whose only defect is its indentation width converges to a file that the parser rejects.

The file below is indented by 2 blanks per level instead of 4 (nothing else is wrong with it; parser 1 and parser 2 read it
exactly like the 4-blank file).  One line of the help text starts with a WORD that merely begins with a keyword
(`configuration ...`; `iffy`, `helpful`, `sources`, `commentary`, `menus`, `choices` do the same).  kconfcheck decides help
membership against the EXPECTED indentation (level * 4), so the under-indented help lines are handled as ordinary
statements, and IndentAndNameChecker.re_increase_level (no word boundary after the keyword) takes `configuration` for a
`config` entry: --replace moves that line out of the help text to the indentation of an entry.  The second pass then
reports OK -- for a file that Kconfig() rejects ("couldn't parse 'configuration of the ...': unknown tokens in line").

Same root cause as the known finding C18-underindented-help-keyword-line (there the line starts with the keyword itself
and the passes never converge); here the passes DO converge, to a broken file.

exit 1 while the defect is present, 0 otherwise.
"""
import os
import sys
import tempfile

from esp_kconfiglib import Kconfig
from kconfcheck.core import validate_file

GOOD = (
    'mainmenu "Demo"\n'
    "\n"
    "    config DEMO_FEATURE\n"
    '        bool "Enable the feature"\n'
    "        help\n"
    "            First line of the help.\n"
    "            configuration of the feature is described here\n"
)
# every indentation halved: 2 blanks per level
HALVED = "".join(" " * ((len(l) - len(l.lstrip(" "))) // 2) + l.lstrip(" ") for l in GOOD.splitlines(keepends=True))


def reading(path):
    k = Kconfig(path, parser_version=1)
    return [(n.item.name, n.prompt[0], n.help) for n in k.node_iter() if hasattr(n.item, "name")]


def main():
    os.environ.setdefault("KCONFIG_REPORT_VERBOSITY", "quiet")
    with tempfile.TemporaryDirectory() as d:
        path = os.path.join(d, "Kconfig")
        with open(path, "w") as f:
            f.write(GOOD)
        if not validate_file(path):
            print("the 4-blank file is not accepted: the repro decides nothing")
            return 0
        want = reading(path)
        with open(path, "w") as f:
            f.write(HALVED)
        if reading(path) != want:
            print("the 2-blank file already reads differently: the repro decides nothing")
            return 0
        ok = False
        for _ in range(5):
            ok = validate_file(path, replace=True)
            if ok:
                break
        if not ok:
            print("no convergence within 5 passes (that is the known finding C18-underindented-help-keyword-line)")
            return 1
        fixed = open(path).read()
        try:
            got = reading(path)
        except Exception as e:  # noqa: BLE001
            print("DEFECT: kconfcheck --replace converged to a file it calls OK and that the parser rejects:")
            print(fixed)
            print(str(e).strip().splitlines()[-1])
            return 1
        if got != want:
            print("DEFECT: the converged file reads differently:", got, "instead of", want)
            print(fixed)
            return 1
    print("fixed")
    return 0


if __name__ == "__main__":
    sys.exit(main())

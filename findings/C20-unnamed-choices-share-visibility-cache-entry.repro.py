#!/usr/bin/env python
"""C20 (generated documentation omits only unreachable options): all choices WITHOUT a name share one entry of the
generator's visibility cache, and a menu titled like an option picks up that option's entry.

gen_kconfig_doc.ConfigTargetVisibility._visible() memoizes the target visibility of options and choices that are defined
once under `node.item.name`.  A `choice` without a name (the common form in ESP-IDF components) has the name None, so the
first unnamed choice the generator meets decides for every later one:
 * first unnamed choice hidden for the docs target (`depends on IDF_TARGET_CHIPB`, in a chipb-only menu / if)  ->  every
   later unnamed choice and all its members are left out of the documentation although the user can reach them;
 * (the other way round a hidden choice is documented -- harmless for this property).
Menus are looked up in the same dict by their TITLE (they are never stored), so `menu "ZED"` is hidden, with everything
below it, when an option ZED that is hidden for the target was seen before.

Run: /venv/bin/python C20-unnamed-choices-share-visibility-cache-entry.repro.py   exit 1 = defect present, 0 = absent
(PYTHONPATH=<copy of the repository> to try a patched copy)
"""

import os
import sys
import tempfile

HEAD = """\
mainmenu "Main"

config IDF_TARGET
    string
    default "$IDF_TARGET"

config IDF_TARGET_CHIPA
    bool
    default "y" if IDF_TARGET="chipa"

config IDF_TARGET_CHIPB
    bool
    default "y" if IDF_TARGET="chipb"
"""

TWO_CHOICES = HEAD + """
choice
    prompt "first choice, chipb only"
    depends on IDF_TARGET_CHIPB
    config C1_A
        bool "a"
    config C1_B
        bool "b"
endchoice

choice
    prompt "second choice, every target"
    config C2_A
        bool "a"
    config C2_B
        bool "b"
endchoice
"""

MENU_LIKE_OPTION = HEAD + """
config ZED
    bool "option ZED, chipb only"
    depends on IDF_TARGET_CHIPB

menu "ZED"
    config Z_IN
        bool "option in the menu titled ZED"
endmenu
"""


def docs(kconfig_text: str, target: str):
    os.environ["IDF_TARGET"] = target
    os.environ.setdefault("KCONFIG_REPORT_VERBOSITY", "quiet")
    import esp_kconfiglib.core as kl
    import kconfgen.core as kg

    with tempfile.TemporaryDirectory() as d:
        path = os.path.join(d, "Kconfig")
        with open(path, "w") as f:
            f.write(kconfig_text)
        k = kl.Kconfig(path)
        out = os.path.join(d, "docs.rst")
        kg.write_docs(k, out)
        with open(out) as f:
            return f.read(), k


def main() -> int:
    bad = 0
    text, k = docs(TWO_CHOICES, "chipa")
    for name in ("C2_A", "C2_B"):
        reachable = k.syms[name].visibility > 0
        documented = f".. _CONFIG_{name}:" in text
        print(f"chipa: {name}: visible for the user = {reachable}, documented = {documented}")
        if reachable and not documented:
            bad += 1
    text, k = docs(MENU_LIKE_OPTION, "chipa")
    reachable = k.syms["Z_IN"].visibility > 0
    documented = ".. _CONFIG_Z_IN:" in text
    print(f"chipa: Z_IN (in menu \"ZED\"): visible for the user = {reachable}, documented = {documented}")
    if reachable and not documented:
        bad += 1
    if bad:
        print(f"DEFECT PRESENT: {bad} reachable option(s) missing from the generated documentation")
        return 1
    print("defect absent")
    return 0


if __name__ == "__main__":
    sys.exit(main())

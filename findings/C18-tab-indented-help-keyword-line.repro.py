# C18: a file whose ONLY defect is tabs instead of 4-blank indentation (parser 1 reads it like the compliant file) is
# never reported OK: the help line "config keyword ..." is measured as 3 columns, taken for an entry and de-indented.
# Same outcome for 2-blank indentation (all indents halved).  run: /venv/bin/python C18-tab-indented-help-keyword-line.repro.py
import os, tempfile
from kconfcheck.core import validate_file
from esp_kconfiglib import Kconfig
T = 'mainmenu "T"\n\n\tconfig APP_A\n\t\tbool "a"\n\t\thelp\n\t\t\tconfig keyword in the help\n'
p = os.path.join(tempfile.mkdtemp(dir="/dev/shm"), "Kconfig")
open(p, "w").write(T)
print("help as parser 1 reads the input:", repr(Kconfig(p, parser_version=1).syms["APP_A"].nodes[0].help))
for i in range(6):
    print("pass", i + 1, "->", validate_file(p, replace=True))      # False six times (EOF: common prefix is "")
print(open(p).read())                                               # `    config keyword in the help` is now an entry

#!/usr/bin/env python3
r"""C04: parser 2 turns a quoted string that STARTS and ENDS with a reference, e.g. "$(A)-$(B)", into the empty string.

Parser.kconfigize_expr() (kconfig_parser.py) strips `"$` and the closing quote and then tests
`expr.startswith("(") and expr.endswith(")")` to recognise a string that consists of ONE reference "$(NAME)".  The string
"$(A)-$(B)" passes the same test, so `A)-$(B` is looked up as the name of a macro / environment variable, is not found, and
the quoted fallback returns the constant "" .  The same shape with braces, "${A}-${B}", is looked up as the environment
variable `A}-${B` and yields the text `${A}-${B}` unexpanded.  Parser 1 (and parser 2 for every other placement of the same
references, e.g. "x$(A)-$(B)" or "$(A)-$(B)x") expands both references.

Exit 1 while the defect is present, 0 otherwise.   Run: /venv/bin/python <this file>
"""
import os
import sys
import tempfile

os.environ.setdefault("KCONFIG_REPORT_VERBOSITY", "quiet")
os.environ["C04_DEMO_ENV"] = "envval"
import esp_kconfiglib as kconfiglib  # noqa: E402
from esp_kconfiglib.core import KconfigError  # noqa: E402

HEAD = 'mainmenu "T"\n\nMAC = 42\n\nconfig S\n    string "s"\n    default "42-envval"\n\n'
PROGRAMS = {
    "default, $(macro)-$(env)": (HEAD + 'config T\n    string "t"\n    default "$(MAC)-$(C04_DEMO_ENV)"\n', "42-envval"),
    "default, $(macro)-$(macro)": (HEAD + 'config T\n    string "t"\n    default "$(MAC)-$(MAC)"\n', "42-42"),
    "default, ${env}-${env}": (HEAD + 'config T\n    string "t"\n    default "${C04_DEMO_ENV}-${C04_DEMO_ENV}"\n', "envval-envval"),
    "comparison operand": (HEAD + 'config T\n    string "t"\n    default "hit" if S = "$(MAC)-$(C04_DEMO_ENV)"\n    default "miss"\n', "hit"),
    "control: same references, not enclosing": (HEAD + 'config T\n    string "t"\n    default "x$(MAC)-$(C04_DEMO_ENV)"\n', "x42-envval"),
}


def load(path, version):
    try:
        k = kconfiglib.Kconfig(path, parser_version=version)
        return f"accepted, T = {k.syms['T'].str_value!r}"
    except KconfigError as e:
        return f"rejected ({type(e).__name__})"
    except Exception as e:  # noqa: BLE001
        return f"raised {type(e).__name__}"


def main() -> int:
    bad = []
    with tempfile.TemporaryDirectory() as d:
        for i, (label, (text, expected)) in enumerate(PROGRAMS.items()):
            path = os.path.join(d, f"Kconfig.{i}")
            with open(path, "w") as f:
                f.write(text)
            r1, r2 = load(path, 1), load(path, 2)
            want = f"accepted, T = {expected!r}"
            if r1 != r2 or r1 != want:
                bad.append(f"[{label}] parser 1: {r1}; parser 2: {r2}; expected from both: {want}")
    for b in bad:
        print(b)
    print("defect present" if bad else "ok: both parsers expand every reference of a string that starts and ends with one")
    return 1 if bad else 0


if __name__ == "__main__":
    sys.exit(main())

#!/usr/bin/env python3
"""C20: an OPTION (menuconfig symbol or choice) whose prompt text equals one of gen_kconfig_doc.EXCLUDED_MENU_NAMES is not
documented, and links to it dangle.

write_menu_item() returns early for every node with `node_is_menu(node)` whose prompt is an excluded menu name.
node_is_menu() is also true for `menuconfig` symbols and for choices (kconfiglib sets is_menuconfig for both), so a
prompted, visible option with that prompt text gets no section / anchor (for a choice: neither do its members), while
  - its children still name it in "Symbol can be set when" (`:ref:`CONFIG_K_MC` is enabled`), a dangling link;
  - the property demands that every option with a prompt that can be made visible is documented.
Only plain `menu` entries are meant to be excluded by name.

Run with /venv/bin/python (PYTHONPATH=<copy> to test a copy).  Exit 1 while the defect is present, 0 otherwise.
"""

import os
import re
import sys
import tempfile

KCONFIG = """\
mainmenu "Demo"

    config IDF_TARGET
        string
        default "$IDF_TARGET"

    menu "Component config"

        menuconfig K_MC
            bool "Configuration for components not included in the build"

        if K_MC

            config K_MC_C
                bool "child of the specially named menuconfig"

        endif

        choice K_CH
            prompt "Project configuration for components not included in the build"
            default K_CH_A

            config K_CH_A
                bool "a"

            config K_CH_B
                bool "b"

        endchoice

    endmenu
"""


def main() -> int:
    os.environ["IDF_TARGET"] = "chipa"
    os.environ.setdefault("KCONFIG_REPORT_VERBOSITY", "quiet")
    import esp_kconfiglib.core as kconfiglib
    from kconfgen.core import write_docs

    problems = []
    with tempfile.TemporaryDirectory() as tmp:
        kpath = os.path.join(tmp, "Kconfig")
        with open(kpath, "w") as f:
            f.write(KCONFIG)
        kc = kconfiglib.Kconfig(kpath)
        out = os.path.join(tmp, "docs.rst")
        write_docs(kc, out, write_deprecated=False)
        with open(out) as f:
            text = f.read()
    anchors = set(re.findall(r"^\s*\.\. _([^:\n]+):\s*$", text, re.M))
    for name in ("K_MC", "K_MC_C", "K_CH", "K_CH_A", "K_CH_B"):
        if f"CONFIG_{name}" not in anchors:
            problems.append(f"{name} has a prompt and is visible (or can be made visible) but has no anchor `.. _CONFIG_{name}:`")
    for body in re.findall(r":ref:`([^`]*)`", text):
        m = re.match(r"^.*<([^<>]+)>\s*$", body, re.S)
        ref = m.group(1) if m else body
        if ref not in anchors:
            problems.append(f":ref:`{ref}` has no anchor in the generated text")
    if problems:
        print("DEFECT PRESENT:")
        for p in problems:
            print("  -", p)
        return 1
    print("ok: options that carry an excluded menu's name as their prompt are documented, no dangling links")
    return 0


if __name__ == "__main__":
    sys.exit(main())

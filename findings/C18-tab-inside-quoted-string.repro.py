# C18: the tab rule rewrites tabs inside quoted strings: the default VALUE of the option changes ('a\tb' -> 'a    b'),
# and parser 2 reads the result as 'a b'.
import os, tempfile
from kconfcheck.core import validate_file
from esp_kconfiglib import Kconfig
T = 'mainmenu "T"\n\n    config APP_S\n        string "s"\n        default "a\tb"\n'
p = os.path.join(tempfile.mkdtemp(dir="/dev/shm"), "Kconfig")
open(p, "w").write(T)
print("before:", repr(Kconfig(p, parser_version=1).syms["APP_S"].str_value))
while not validate_file(p, replace=True):
    pass
print("after: ", repr(Kconfig(p, parser_version=1).syms["APP_S"].str_value), "| parser 2:", repr(Kconfig(p, parser_version=2).syms["APP_S"].str_value))

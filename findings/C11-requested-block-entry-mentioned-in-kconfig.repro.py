#!/usr/bin/env python3
"""C11: a deprecated-block entry requested with load_deprecated=True is dropped when a Kconfig expression mentions its name.

docs/en/kconfiglib/deprecated-options.rst: with load_deprecated=True the lines of the deprecated block "are loaded as synthetic
symbols ... Their primary use is for expression evaluation".  Kconfig._load_config() creates the synthetic symbol only
`if not sym and in_deprecated_block`.  When some Kconfig expression (depends on / default ... if / select ... if) still
mentions the old name, the name already has a node-less Symbol object, so the entry falls through to _undef_assign():
it lands in missing_syms, eval_string("OLD") is n, and the very expression that still uses the old name sees n.

Exit 1 while the defect is present, 0 otherwise.   Run: /venv/bin/python <this file>
"""
import os
import sys
import tempfile

os.environ.setdefault("KCONFIG_REPORT_VERBOSITY", "quiet")
from esp_kconfiglib import Kconfig  # noqa: E402

KCONFIG = """\
mainmenu "T"

config NEW_B
    bool "b"

config NEW_I
    int "i"
    default 5

config LEGACY
    bool
    default y if OLD_B

config LEGACY_I
    bool
    default y if OLD_I < 8
"""
RENAME = "CONFIG_OLD_B CONFIG_NEW_B\nCONFIG_OLD_I CONFIG_NEW_I\n"


def main() -> int:
    bad = []
    with tempfile.TemporaryDirectory() as d:
        for name, text in (("Kconfig", KCONFIG), ("sdkconfig.rename", RENAME)):
            with open(os.path.join(d, name), "w") as f:
                f.write(text)
        k = Kconfig(os.path.join(d, "Kconfig"))
        k.load_rename_files([os.path.join(d, "sdkconfig.rename")])
        k.syms["NEW_B"].set_value("y")
        out = os.path.join(d, "sdkconfig")
        k.write_config(out, save_old=False, write_deprecated=True)  # block: CONFIG_OLD_B=y, CONFIG_OLD_I=5

        k2 = Kconfig(os.path.join(d, "Kconfig"))
        k2.load_rename_files([os.path.join(d, "sdkconfig.rename")])
        k2.load_config(out, load_deprecated=True)
        if k2.eval_string("OLD_B") != 2:
            bad.append(f"eval_string('OLD_B') = {k2.eval_string('OLD_B')}, written as y")
        if k2.eval_string("OLD_I = 5") != 2:
            bad.append(f"eval_string('OLD_I = 5') = {k2.eval_string('OLD_I = 5')}, written as 5")
        if k2.syms["LEGACY"].str_value != "y":
            bad.append("`default y if OLD_B` gives n although the requested block says CONFIG_OLD_B=y")
        if k2.syms["LEGACY_I"].str_value != "y":
            bad.append("`default y if OLD_I < 8` gives n although the requested block says CONFIG_OLD_I=5")
        lost = [n for n, _ in k2.missing_syms if n in ("OLD_B", "OLD_I")]
        if lost:
            bad.append(f"missing_syms lists the deprecated names {lost}")
    if bad:
        print("C11 defect present:")
        for b in bad:
            print(" -", b)
        return 1
    print("ok")
    return 0


if __name__ == "__main__":
    sys.exit(main())

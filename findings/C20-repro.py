# C20 repro (three defects of esp_idf_kconfig/gen_kconfig_doc.py):  /venv/bin/python C20-repro.py
import os, tempfile; os.environ["IDF_TARGET"] = "chipa"
import esp_kconfiglib.core as kl, kconfgen.core as kg
d = tempfile.mkdtemp()
open(d + "/Kconfig", "w").write('''mainmenu "M"
config IDF_TARGET
    string
    default "$IDF_TARGET"
config N
    int "user number"
    default 4
config A
    bool "visible unless N is 3"
    depends on N != 3
config B
    bool "visible while N < 1.5"
    depends on N < 1.5
menu "Configuration for components not included in the build"
    config C
        bool "c"
endmenu
''')
k = kl.Kconfig(d + "/Kconfig")
kg.write_docs(k, d + "/out.rst")  # what `kconfgen --output docs` calls
rst = open(d + "/out.rst").read()
print("1) A visible:", k.syms["A"].visibility == 2, "documented:", ".. _CONFIG_A:" in rst)  # True False
print("2)", [l.strip() for l in rst.splitlines() if "CONFIG_N` <" in l])  # [':ref:`CONFIG_N` < n'], want `< 1.5`
a = "configuration-for-components-not-included-in-the-build"
print("3) :ref: used:", f":ref:`{a}`" in rst, "anchor defined:", f".. _{a}:" in rst)  # True False

#!/usr/bin/env python3
r"""C04: parser 2's inline-comment stripper ends a string at an ESCAPED quote, so a later `#` in the literal cuts the line.

KconfigGrammar.preprocess_file() / remove_inline_comments() (kconfig_grammar.py) removes `# ...` comments before pyparsing
sees the text.  It tracks "inside a quote" but ignores backslash escapes: in

    default "5\" disk, item #1"

the escaped quote closes the tracked string, the following text is "outside", and everything from `#` on is dropped.  The
line that reaches the grammar is `default "5\" disk, item` (unterminated string) -> KconfigParseError.  Parser 1 accepts
the file (value `5" disk, item #1`).  (With an EVEN number of escaped quotes before the `#` the tracking is accidentally
right again.)  Same in every position of a string (prompt, default, comparison
operand, `set` value, menu / comment title, macro value) and for single-quoted strings with \'.

Exit 1 while the defect is present, 0 otherwise.   Run: /venv/bin/python <this file>
"""
import os
import sys
import tempfile

os.environ.setdefault("KCONFIG_REPORT_VERBOSITY", "quiet")
import esp_kconfiglib as kconfiglib  # noqa: E402
from esp_kconfiglib.core import KconfigError  # noqa: E402

PROGRAMS = {
    "default value": ('mainmenu "T"\n\nconfig T\n    string "t"\n    default "5\\" disk, item #1"\n', '5" disk, item #1'),
    "default value, single-quoted": ('mainmenu "T"\n\nconfig T\n    string "t"\n    default \'it\\\'s item #1\'\n', "it's item #1"),
    "comparison operand": ('mainmenu "T"\n\nconfig S\n    string "s"\n    default "v"\n\nconfig T\n    string "t"\n    default "hit" if S != "a\\"b#c"\n    default "miss"\n', "hit"),
}


def load(path, version):
    try:
        k = kconfiglib.Kconfig(path, parser_version=version)
        return f"accepted, T = {k.syms['T'].str_value!r}"
    except KconfigError as e:
        return f"rejected ({type(e).__name__})"
    except Exception as e:  # noqa: BLE001
        return f"raised {type(e).__name__}"


def main() -> int:
    bad = []
    with tempfile.TemporaryDirectory() as d:
        for i, (label, (text, expected)) in enumerate(PROGRAMS.items()):
            path = os.path.join(d, f"Kconfig.{i}")
            with open(path, "w") as f:
                f.write(text)
            r1, r2 = load(path, 1), load(path, 2)
            want = f"accepted, T = {expected!r}"
            if r1 != r2 or r1 != want:
                bad.append(f"[{label}] parser 1: {r1}; parser 2: {r2}; expected from both: {want}")
    for b in bad:
        print(b)
    print("defect present" if bad else "ok: `#` after an escaped quote stays inside the string for both parsers")
    return 1 if bad else 0


if __name__ == "__main__":
    sys.exit(main())
